package cache

// Finding C17/C16 (repaired by a fix: commit): the balance cache and the awaiting-transaction index shared one key space.
// SaveBalance / ReadBalance / RemoveBalance used the caller's string as the cache key as it is, while awaiting
// transactions live under "trx-<hex hash>" and the per-address lists under "address-<address>". The notary's Propose
// and Confirm housekeeping call RemoveBalance(trx.ReceiverAddress) after sealing, and the receiver address of a pure
// spice transfer is whatever string the issuer wrote (only the issuer signature is checked). An issuer who names
// "trx-<hex hash of somebody's awaiting contract>" as the receiver of a tiny transfer thereby deletes that contract from
// the awaiting cache: it is no longer listed for its issuer and receiver and can no longer be confirmed, although
// nobody but its receiver may remove it.
// Run: go test -overlay <ov.json> -vet=off -run TestKnownBalanceKeyCollision ./cache/   (from /repo/src)

import (
	"encoding/hex"
	"testing"

	"github.com/bartossh/Computantis/src/spice"
	"github.com/bartossh/Computantis/src/transaction"
	"github.com/bartossh/Computantis/src/wallet"
)

func TestKnownBalanceKeyCollision(t *testing.T) {
	issuer, err := wallet.New()
	if err != nil {
		t.Skip(err)
	}
	receiver, err := wallet.New()
	if err != nil {
		t.Skip(err)
	}
	h, err := New(32*10_000, 64)
	if err != nil {
		t.Skip(err)
	}
	trx, err := transaction.New("contract", spice.Melange{}, []byte("awaiting the receiver"), receiver.Address(), &issuer)
	if err != nil {
		t.Skip(err)
	}
	if err := h.SaveAwaitedTransaction(&trx); err != nil {
		t.Skip(err)
	}
	before, _ := h.ReadTransactions(receiver.Address())
	if len(before) != 1 {
		t.Skipf("setup: %d listed", len(before))
	}
	// what the notary's housekeeping does with the receiver address of a sealed transfer, here chosen by an attacker
	attackerChosenReceiver := "trx-" + hex.EncodeToString(trx.Hash[:])
	_ = h.RemoveBalance(attackerChosenReceiver)
	after, _ := h.ReadTransactions(receiver.Address())
	if len(after) == 1 {
		t.Skip("the awaiting transaction is still listed: balance keys and awaiting keys do not collide (finding not present)")
	}
	t.Logf("REPRODUCED: RemoveBalance(%q) removed an awaiting transaction: %d listed before, %d after", attackerChosenReceiver[:12]+"...", len(before), len(after))
	t.Fail()
}
