package transformers

// Known finding C19/epoch: a transaction created exactly at the Unix epoch converts to protobuf
// (CreatedAt.IsZero() is false: the zero time.Time is year 1, not 1970) but cannot be converted back
// (ProtoTrxToTrx treats CreatedAt == 0 as "empty").
// Run: go test -overlay <ov.json> -vet=off -run TestKnownC19Epoch ./transformers/   (from /repo/src)

import (
	"testing"
	"time"

	"github.com/bartossh/Computantis/src/transaction"
)

func TestKnownC19Epoch(t *testing.T) {
	trx := transaction.Transaction{Subject: "s", IssuerAddress: "a", ReceiverAddress: "b", IssuerSignature: []byte{1},
		CreatedAt: time.Unix(0, 0)}
	p, err := TrxToProtoTrx(trx)
	if err != nil {
		t.Skipf("to-proto refused: %v", err)
	}
	if _, err := ProtoTrxToTrx(p); err == nil {
		t.Skip("round trip succeeded: finding not present")
	} else {
		t.Logf("REPRODUCED: to-proto ok, from-proto failed: %v", err)
	}
}
