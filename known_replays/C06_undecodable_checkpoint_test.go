package accountant

// Fixed finding C06/C07: the storage readers called item.Value(func ...) and dropped its error, so a record that does
// not decode was returned as the zero value with a nil error (zero funds / an empty vertex / an empty transaction).
// Run: go test -overlay <ov.json> -vet=off -run TestKnownUndecodableCheckpoint ./accountant/   (from /repo/src)

import (
	"context"
	"fmt"
	"testing"

	"github.com/bartossh/Computantis/src/logging"
	"github.com/bartossh/Computantis/src/stdoutwriter"
	"github.com/bartossh/Computantis/src/wallet"
	"github.com/dgraph-io/badger/v4"
)

func TestKnownUndecodableCheckpoint(t *testing.T) {
	ctx, cancel := context.WithCancel(context.Background())
	defer cancel()
	l := logging.New(func(err error) { fmt.Println(err) }, func(err error) { fmt.Println(err) }, &stdoutwriter.Logger{})
	signer, err := wallet.New()
	if err != nil {
		t.Skip(err)
	}
	ab, err := NewAccountingBook(ctx, Config{}, wallet.NewVerifier(), &signer, l)
	if err != nil {
		t.Skip(err)
	}
	addr := "some-wallet-address"
	garbage := []byte{0xc1, 0xc1, 0xc1} // 0xc1 is never used in msgpack
	if err := ab.verticesDB.Update(func(txn *badger.Txn) error { return txn.Set([]byte(addr), garbage) }); err != nil {
		t.Skip(err)
	}
	s, err := ab.readAddressFundsFromStorage(addr)
	if err != nil {
		t.Skipf("the undecodable record is reported: %v (finding not present)", err)
	}
	t.Logf("REPRODUCED: an undecodable checkpoint record reads as %s with a nil error", s.String())
	key := make([]byte, 32)
	key[0] = 7
	ab.verticesDB.Update(func(txn *badger.Txn) error { return txn.Set(key, garbage) })
	if v, err := ab.readVertexFromStorage(key); err == nil {
		t.Logf("REPRODUCED: an undecodable vertex record reads as a vertex with weight %d and a nil error", v.Weight)
	}
	if trx, err := ab.readTransactionFromStorage(key); err == nil {
		t.Logf("REPRODUCED: an undecodable vertex record yields a transaction with subject %q and a nil error", trx.Subject)
	}
}
