package transaction

// Known finding C04/layout: the signed message concatenates subject | data | issuer | receiver without length
// prefixes, so bytes can be moved between neighbouring fields without changing the message, the hash or the
// signatures: a transaction signed as (subject "transfer", data "XY") verifies as (subject "transferX", data "Y").
// Run: go test -overlay <ov.json> -vet=off -run TestKnownC04Layout ./transaction/   (from /repo/src)

import (
	"bytes"
	"testing"

	"github.com/bartossh/Computantis/src/spice"
	"github.com/bartossh/Computantis/src/wallet"
)

func TestKnownC04Layout(t *testing.T) {
	issuer, err := wallet.New()
	if err != nil {
		t.Skip(err)
	}
	receiver, err := wallet.New()
	if err != nil {
		t.Skip(err)
	}
	trx, err := New("transfer", spice.New(1, 0), []byte("XY"), receiver.Address(), &issuer)
	if err != nil {
		t.Skip(err)
	}
	v := wallet.NewVerifier()
	if err := trx.VerifyIssuer(v); err != nil {
		t.Skipf("original does not verify: %v", err)
	}
	forged := trx
	forged.Subject = "transferX"
	forged.Data = []byte("Y")
	if !bytes.Equal(trx.GetMessage(), forged.GetMessage()) {
		t.Skip("messages differ: finding not present")
	}
	if err := forged.VerifyIssuer(v); err != nil {
		t.Skipf("forged transaction rejected: %v (finding not present)", err)
	}
	t.Logf("REPRODUCED: subject %q data %q verifies with the signature made over subject %q data %q", forged.Subject, forged.Data, trx.Subject, trx.Data)
}
