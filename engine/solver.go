package main

import (
	"bytes"
	"context"
	"crypto/sha1"
	"fmt"
	"os"
	"os/exec"
	"path/filepath"
	"regexp"
	"sort"
	"strings"
	"sync"
	"time"
)

type SolverCfg struct {
	Timeout  time.Duration
	WorkDir  string
	Parallel int
	Cross    bool // confirm every unsat with a second solver
}

type qResult struct {
	res    string
	solver string
	secs   float64
	model  map[string]string
	raw    string
	smt    string
}

var (
	qCacheMu sync.Mutex
	qCache   = map[string]*qResult{}
)

// buildQuery renders PC /\ not(goal) together with variable facts and axiom instances.
func (ex *Exec) buildQuery(pc []*Term, goal *Term, cover bool) string {
	return ex.buildQueryMode(pc, goal, cover, false)
}

// Sequence mode: the sort B of byte strings is (Seq Int) and blen/bcat/bsub/bat are the theory's own operations, so
// the solver reasons about layouts (concatenation, slicing, copy) itself; every other function over B (le64, sha256,
// string constants, ...) stays uninterpreted with its length facts. The length facts the engine knows for B terms are
// kept as hypotheses: they hold in every real execution because all slicing and copying is bounds-checked.
const seqPrelude = `(define-fun blen ((x B)) Int (seq.len x))
(define-fun bcat ((x B) (y B)) B (seq.++ x y))
(define-fun bsub ((x B) (o Int) (n Int)) B (seq.extract x o n))
(define-fun bat ((x B) (i Int)) Int (seq.nth x i))
(define-fun bunit ((c Int)) B (seq.unit c))
`

func (ex *Exec) buildQueryMode(pc []*Term, goal *Term, cover bool, seq bool) string {
	var asserts []*Term
	asserts = append(asserts, pc...)
	if !cover {
		asserts = append(asserts, Not(goal))
	}
	if seq {
		asserts = ex.expandSeqDefs(asserts)
	}
	asserts = ex.closeFacts(asserts)
	d := collectDecls(asserts)
	var sb strings.Builder
	sb.WriteString("(set-option :produce-models true)\n(set-logic ALL)\n")
	if seq {
		seqBuiltin = map[string]bool{"blen": true, "bcat": true, "bsub": true, "bat": true, "bunit": true}
		d.sorts[SB] = true
		d.print(&sb, true)
		seqBuiltin = map[string]bool{}
		// the definitions must follow the sort and precede every use
		out := sb.String()
		i := strings.Index(out, "(define-sort B () (Seq Int))\n") + len("(define-sort B () (Seq Int))\n")
		sb.Reset()
		sb.WriteString(out[:i] + seqPrelude + out[i:])
	} else {
		d.print(&sb, false)
	}
	smtDefs(&sb, asserts)
	sb.WriteString("(check-sat)\n(get-model)\n")
	return sb.String()
}

// relevant keeps only the hypotheses that (transitively) share symbols with the goal.
func relevant(pc []*Term, goal *Term) []*Term {
	syms := func(t *Term) map[string]bool {
		m := map[string]bool{}
		t.Walk(func(x *Term) {
			if x.Op == "var" {
				m[x.Name] = true
			} else if x.Op == "app" {
				m["@"+x.Key()] = true
				if len(x.Args) == 0 {
					m[x.Name] = true
				}
			}
		})
		return m
	}
	cur := syms(goal)
	used := make([]bool, len(pc))
	psyms := make([]map[string]bool, len(pc))
	for i, p := range pc {
		psyms[i] = syms(p)
	}
	changed := true
	for changed {
		changed = false
		for i := range pc {
			if used[i] {
				continue
			}
			hit := false
			for s := range psyms[i] {
				if cur[s] {
					hit = true
					break
				}
			}
			if hit {
				used[i] = true
				changed = true
				for s := range psyms[i] {
					cur[s] = true
				}
			}
		}
	}
	var out []*Term
	for i, p := range pc {
		if used[i] {
			out = append(out, p)
		}
	}
	return out
}

// closeFacts adds facts about variables and axiom instances about the uninterpreted functions that occur.
func (ex *Exec) closeFacts(asserts []*Term) []*Term {
	seenVar := map[string]bool{}
	seenApp := map[string]bool{}
	seenFact := map[string]bool{}
	out := append([]*Term(nil), asserts...)
	add := func(t *Term) bool {
		if t.IsTrue() || seenFact[t.Key()] {
			return false
		}
		seenFact[t.Key()] = true
		out = append(out, t)
		return true
	}
	var strcs []*Term
	for round := 0; round < 6; round++ {
		n := len(out)
		for _, a := range out[:n] {
			a.Walk(func(x *Term) {
				switch x.Op {
				case "=":
					if x.Args[0].Sort == SB && !seenApp[x.Key()] {
						seenApp[x.Key()] = true
						add(Implies(x, Eq(ex.G.BLen(x.Args[0]), ex.G.BLen(x.Args[1]))))
					}
				case "var":
					if !seenVar[x.Name] {
						seenVar[x.Name] = true
						for _, f := range ex.G.facts[x.Name] {
							add(f)
						}
					}
				case "app":
					k := x.Key()
					if seenApp[k] {
						return
					}
					seenApp[k] = true
					if x.Sort == SB {
						if l, ok := ex.G.lens[k]; ok {
							add(Eq(App("blen", SInt, x), l))
						}
					}
					if strings.HasPrefix(x.Name, "strc_") && len(x.Args) == 0 {
						strcs = append(strcs, x)
						return
					}
					switch x.Name {
					case "errwraps":
						// a sentinel error value (errors.New at package level) wraps nothing
						for _, id := range ex.G.errIDs {
							add(Implies(Eq(x.Args[0], IntC(id)), Not(x)))
						}
						add(Implies(Eq(x.Args[0], IntC(0)), Not(x)))
					case "blen":
						add(Ge(x, IntC(0)))
						add(Le(x, IntB(Pow2(40)))) // A14
					case "bsub":
						add(Eq(App("blen", SInt, x), x.Args[2]))
						add(Implies(And(Eq(x.Args[1], IntC(0)), Eq(x.Args[2], App("blen", SInt, x.Args[0]))), Eq(x, x.Args[0])))
					case "bcat":
						add(Eq(App("blen", SInt, x), Add(App("blen", SInt, x.Args[0]), App("blen", SInt, x.Args[1]))))
					case "le64":
						add(Eq(App("blen", SInt, x), IntC(8)))
						add(Eq(App("le64inv", SInt, x), x.Args[0]))
					case "bunit":
						add(Eq(App("blen", SInt, x), IntC(1)))
						add(Eq(App("bat", SInt, x, IntC(0)), x.Args[0]))
					case "bzero":
						add(Eq(App("blen", SInt, x), x.Args[0]))
					case "bupd":
						add(Eq(App("blen", SInt, x), App("blen", SInt, x.Args[0])))
					case "sha256":
						add(Eq(App("blen", SInt, x), IntC(32)))
					case "bat":
						add(And(Ge(x, IntC(0)), Le(x, IntC(255))))
					case "time_unixnano":
						add(And(Ge(x, IntB(negBigPow(63))), Lt(x, IntB(Pow2(63)))))
						if in := x.Args[0]; in.Op == "app" && in.Name == "time_unix" {
							// time.Unix(0, n).UnixNano() == n for every int64 n
							add(Implies(Eq(in.Args[0], IntC(0)), Eq(x, in.Args[1])))
						}
					}
					if (strings.HasPrefix(x.Name, "p_") || strings.HasPrefix(x.Name, "g_")) && x.Sort == SInt {
						// error-valued method results: ids are non-negative
						add(Ge(x, IntC(0)))
					}
				}
			})
		}
		if len(out) == n {
			break
		}
	}
	// uninterpreted functions declared to have disjoint ranges (cache key families)
	if ex.Specs != nil {
		for _, pr := range ex.Specs.Disjoint {
			var as, bs []*Term
			for _, a := range out {
				a.Walk(func(x *Term) {
					if x.Op == "app" && x.Name == pr[0] {
						as = append(as, x)
					}
					if x.Op == "app" && x.Name == pr[1] {
						bs = append(bs, x)
					}
				})
			}
			seenPair := map[string]bool{}
			for _, a := range as {
				for _, b := range bs {
					k := a.Key() + "#" + b.Key()
					if !seenPair[k] {
						seenPair[k] = true
						out = append(out, Neq(a, b))
					}
				}
			}
		}
	}
	if len(strcs) > 1 {
		sort.Slice(strcs, func(i, j int) bool { return strcs[i].Name < strcs[j].Name })
		out = append(out, mk(&Term{Op: "distinct", Args: strcs, Sort: SBool}))
	}
	for _, s := range strcs {
		if l, ok := ex.G.lens[s.Key()]; ok {
			out = append(out, Eq(App("blen", SInt, s), l))
		}
	}
	return out
}

func negBigPow(n int) *bigInt { return new(bigInt).Neg(Pow2(n)) }

type solverSpec struct {
	name string
	args func(file string, to time.Duration) []string
}

var solvers = []solverSpec{
	{"z3-new", func(f string, to time.Duration) []string {
		return []string{"z3-new", fmt.Sprintf("-T:%d", int(to.Seconds())+1), f}
	}},
	{"z3", func(f string, to time.Duration) []string {
		return []string{"z3", fmt.Sprintf("-T:%d", int(to.Seconds())+1), f}
	}},
	{"cvc5", func(f string, to time.Duration) []string {
		return []string{"cvc5", "--strings-exp", fmt.Sprintf("--tlimit=%d", to.Milliseconds()), f}
	}},
}

var modelRe = regexp.MustCompile(`\(define-fun\s+(\S+)\s+\(\)\s+(\S+)\s+([^\n]*?)\)\s*$`)

func parseModel(out string) map[string]string {
	m := map[string]string{}
	lines := strings.Split(out, "\n")
	for i := 0; i < len(lines); i++ {
		l := strings.TrimSpace(lines[i])
		if !strings.HasPrefix(l, "(define-fun ") {
			continue
		}
		full := l
		// z3 prints the value on the next line
		if !strings.HasSuffix(l, ")") || strings.Count(l, "(") > strings.Count(l, ")") {
			for j := i + 1; j < len(lines) && strings.Count(full, "(") > strings.Count(full, ")"); j++ {
				full += " " + strings.TrimSpace(lines[j])
				i = j
			}
		}
		if mm := modelRe.FindStringSubmatch(full); mm != nil {
			v := strings.TrimSpace(mm[3])
			v = strings.ReplaceAll(v, "(- ", "-")
			v = strings.TrimSuffix(v, ")")
			if mm[2] == "Int" || mm[2] == "Bool" {
				m[mm[1]] = v
			}
		}
	}
	return m
}

func runOne(ctx context.Context, sp solverSpec, file string, to time.Duration) (string, string) {
	argv := sp.args(file, to)
	c, cancel := context.WithTimeout(ctx, to+2*time.Second)
	defer cancel()
	cmd := exec.CommandContext(c, argv[0], argv[1:]...)
	var buf bytes.Buffer
	cmd.Stdout = &buf
	cmd.Stderr = &buf
	_ = cmd.Run()
	out := buf.String()
	first := strings.TrimSpace(strings.SplitN(out, "\n", 2)[0])
	switch first {
	case "sat", "unsat":
		return first, out
	}
	return "unknown", out
}

// solve races the solver portfolio on one query.
func solve(cfg *SolverCfg, smt string) *qResult {
	h := fmt.Sprintf("%x", sha1.Sum([]byte(smt)))
	qCacheMu.Lock()
	if r, ok := qCache[h]; ok {
		qCacheMu.Unlock()
		return r
	}
	qCacheMu.Unlock()
	file := filepath.Join(cfg.WorkDir, h[:16]+".smt2")
	_ = os.WriteFile(file, []byte(smt), 0o644)
	start := time.Now()
	// stage 1: the fastest solver alone with a short budget
	res := &qResult{res: "unknown", smt: file}
	short := 3 * time.Second
	if cfg.Timeout < short {
		short = cfg.Timeout
	}
	r, out := "unknown", ""
	if !strings.Contains(smt, "(define-sort B () (Seq Int))") { // sequence queries go to the whole portfolio at once (cvc5 carries them)
		r, out = runOne(context.Background(), solvers[0], file, short)
	}
	if r != "unknown" {
		res.res, res.solver, res.raw = r, solvers[0].name, out
	} else {
		ctx, cancel := context.WithCancel(context.Background())
		type ans struct {
			r, out, name string
		}
		ch := make(chan ans, len(solvers))
		for _, sp := range solvers {
			sp := sp
			go func() {
				r, o := runOne(ctx, sp, file, cfg.Timeout)
				ch <- ans{r, o, sp.name}
			}()
		}
		var raws []string
		for i := 0; i < len(solvers); i++ {
			a := <-ch
			if a.r != "unknown" {
				res.res, res.solver, res.raw = a.r, a.name, a.out
				break
			}
			raws = append(raws, a.name+": "+strings.TrimSpace(firstLines(a.out, 3)))
		}
		cancel()
		if res.res == "unknown" {
			res.raw = strings.Join(raws, " | ")
		}
	}
	if res.res == "unsat" && cfg.Cross {
		for _, sp := range solvers {
			if sp.name == res.solver {
				continue
			}
			cto := cfg.Timeout
			if strings.Contains(smt, "(define-sort B () (Seq Int))") && cto > 15*time.Second {
				cto = 15 * time.Second // only cvc5 decides sequence queries; do not wait two minutes for the others
			}
			r2, _ := runOne(context.Background(), sp, file, cto)
			if r2 == "sat" {
				res.res = "unknown"
				res.raw = "solver disagreement: " + res.solver + " unsat, " + sp.name + " sat"
			}
			if r2 != "unknown" {
				res.solver += "+" + sp.name
				break
			}
		}
	}
	res.secs = time.Since(start).Seconds()
	if res.res == "sat" {
		res.model = parseModel(res.raw)
	}
	if res.res == "unsat" && os.Getenv("GOCV_KEEP") == "" {
		os.Remove(file)
		res.smt = ""
	}
	qCacheMu.Lock()
	qCache[h] = res
	qCacheMu.Unlock()
	return res
}

func firstLines(s string, n int) string {
	ls := strings.Split(s, "\n")
	if len(ls) > n {
		ls = ls[:n]
	}
	return strings.Join(ls, " / ")
}

// Discharge decides all obligations.
func (ex *Exec) Discharge(cfg *SolverCfg, obls []*Obligation) {
	os.MkdirAll(cfg.WorkDir, 0o755)
	sem := make(chan struct{}, cfg.Parallel)
	var wg sync.WaitGroup
	// build queries sequentially (term construction is not thread-safe), solve in parallel
	type job struct {
		ob   *Obligation
		smt  string
		full string
	}
	var jobs []job
	for _, ob := range obls {
		if ob.Result == "folded" {
			continue
		}
		if ob.Kind == "cover" {
			jobs = append(jobs, job{ob: ob, smt: ex.buildQueryMode(ob.PC, ob.Goal, true, ob.Seq)})
			continue
		}
		if ob.Seq {
			// layout obligations: full path condition, sequence encoding
			jobs = append(jobs, job{ob: ob, smt: ex.buildQueryMode(ob.PC, ob.Goal, false, true)})
			continue
		}
		rel := relevant(ob.PC, ob.Goal)
		j := job{ob: ob, smt: ex.buildQuery(rel, ob.Goal, false)}
		if len(rel) != len(ob.PC) {
			j.full = "y"
		}
		jobs = append(jobs, j)
	}
	for i := range jobs {
		j := jobs[i]
		wg.Add(1)
		sem <- struct{}{}
		go func() {
			defer wg.Done()
			defer func() { <-sem }()
			r := solve(cfg, j.smt)
			if d := os.Getenv("GOCV_DUMP"); d != "" && strings.Contains(j.ob.Name, d) {
				f := filepath.Join(cfg.WorkDir, fmt.Sprintf("dump_%x.smt2", sha1.Sum([]byte(j.smt))))
				os.WriteFile(f, []byte(j.smt), 0o644)
				fmt.Fprintf(os.Stderr, "DUMP %s %s -> %s\n", j.ob.Name, r.res, f)
			}
			j.ob.Result, j.ob.Solver, j.ob.Secs, j.ob.Model, j.ob.Raw, j.ob.SMT = r.res, r.solver, r.secs, r.model, r.raw, r.smt
			if j.ob.Kind == "cover" {
				// a cover obligation succeeds when the hypotheses are satisfiable
				switch r.res {
				case "sat":
					j.ob.Result = "unsat"
					j.ob.Model = nil
				case "unsat":
					j.ob.Result = "sat"
					j.ob.Raw = "precondition is unsatisfiable (vacuous contract)"
				}
			}
		}()
	}
	wg.Wait()
	// obligations refuted under the reduced hypothesis set are re-checked with the full path condition
	var again []job
	for _, j := range jobs {
		if j.full != "" && j.ob.Result != "unsat" && j.ob.Kind != "cover" {
			again = append(again, job{ob: j.ob, smt: ex.buildQuery(j.ob.PC, j.ob.Goal, false)})
		}
	}
	for i := range again {
		j := again[i]
		wg.Add(1)
		sem <- struct{}{}
		go func() {
			defer wg.Done()
			defer func() { <-sem }()
			r := solve(cfg, j.smt)
			if d := os.Getenv("GOCV_DUMP"); d != "" && strings.Contains(j.ob.Name, d) {
				f := filepath.Join(cfg.WorkDir, fmt.Sprintf("dumpfull_%x.smt2", sha1.Sum([]byte(j.smt))))
				os.WriteFile(f, []byte(j.smt), 0o644)
				fmt.Fprintf(os.Stderr, "DUMP-FULL %s %s -> %s\n", j.ob.Name, r.res, f)
			}
			j.ob.Secs += r.secs
			j.ob.Result, j.ob.Solver, j.ob.Model, j.ob.Raw, j.ob.SMT = r.res, r.solver, r.model, r.raw, r.smt
		}()
	}
	wg.Wait()
	// Obligations no solver decided within the budget are tried once more, one at a time and with six times the
	// budget: queries of this code base normally answer in well under a second, so a time-out mostly reflects a
	// loaded machine, and "undecided" must not depend on what else is running.
	long := *cfg
	long.Timeout = 6 * cfg.Timeout
	for _, set := range [][]job{jobs, again} {
		for _, j := range set {
			if j.ob.Result != "unknown" || j.ob.Kind == "cover" {
				continue
			}
			smt := j.smt
			if j.full != "" {
				smt = ex.buildQuery(j.ob.PC, j.ob.Goal, false)
			}
			qCacheMu.Lock()
			delete(qCache, fmt.Sprintf("%x", sha1.Sum([]byte(smt))))
			qCacheMu.Unlock()
			r := solve(&long, smt)
			Retried++
			j.ob.Secs += r.secs
			j.ob.Result, j.ob.Solver, j.ob.Model, j.ob.Raw, j.ob.SMT = r.res, r.solver, r.model, r.raw, r.smt
		}
	}
}

// Retried counts the obligations that needed the sequential long-budget retry in this run.
var Retried int

// expandSeqDefs adds, for every application of a function that has a `seqdef`, the equation between the application
// and its definition instantiated at the arguments (a definitional extension: the function has no other axioms).
func (ex *Exec) expandSeqDefs(asserts []*Term) []*Term {
	if ex.Specs == nil || len(ex.Specs.SeqDefs) == 0 {
		return asserts
	}
	seen := map[string]bool{}
	out := append([]*Term(nil), asserts...)
	for changed := true; changed; {
		changed = false
		n := len(out)
		for _, a := range out[:n] {
			a.Walk(func(x *Term) {
				if x.Op != "app" {
					return
				}
				sd := ex.Specs.SeqDefs[x.Name]
				if sd == nil || len(sd.Params) != len(x.Args) || seen[x.Key()] {
					return
				}
				seen[x.Key()] = true
				names := map[string]Value{}
				for i, p := range sd.Params {
					names[p] = x.Args[i]
				}
				var errs []string
				st := &State{Heap: map[*Object]Value{}, PreHeap: map[*Object]Value{}, Ghost: map[string]Value{}, PreGhost: map[string]Value{}, Held: map[string]int{}}
				env := &Env{ex: ex, st: st, names: names, errs: &errs}
				var body Value
				if sd.Body.Op == "" && sd.Body.E != nil {
					body = env.eval(sd.Body.E)
				}
				bt, ok := body.(*Term)
				if !ok || bt.Sort != x.Sort {
					ex.Specs.Errors = append(ex.Specs.Errors, fmt.Sprintf("%s: seqdef %s: cannot evaluate the definition (%s)", sd.Line, sd.Name, strings.Join(errs, "; ")))
					return
				}
				out = append(out, Eq(x, bt))
				changed = true
			})
		}
	}
	return out
}
