package main

import (
	"fmt"
	"go/token"
	"go/types"

	"golang.org/x/tools/go/ssa"
)

type Frame struct {
	Fn           *ssa.Function
	Block        *ssa.BasicBlock
	Prev         *ssa.BasicBlock
	Idx          int
	Locals       map[ssa.Value]Value
	Defers       []*deferred
	Call         ssa.Instruction          // call instruction in the caller frame (nil for entry)
	Bind         []Value                  // free variables (closures)
	Peeled       map[*ssa.BasicBlock]bool // loop headers whose first (peeled) iteration is being executed
	LoopHit      map[*ssa.BasicBlock]int
	Cut          map[*ssa.BasicBlock]bool // loop headers already cut on this path
	InDefer      bool
	Results      Value // saved results while running defers
	deferRet     bool
	IsDeferCall  bool
	GhostIn      map[string]Value // values of named things at entry (params)
	retDst       ssa.Value
	OnReturn     func(ex *Exec, st *State, res Value) Value
	CalleeName   string
	CallArgs     []Value
	Args         []Value
	Names        map[string]Value
	LeftEarly    []*Clause        // covers clauses whose loop was left from its body on this path (decided at return)
	CoverReached map[*Clause]bool // covers clauses whose loop was entered on this path
}

type deferred struct {
	Fn    Value
	Args  []Value
	Call  *ssa.CallCommon
	Instr ssa.Instruction
}

type Event struct {
	Callee  string
	Args    []Value
	Results []Value
	Instr   ssa.Instruction
	Fn      *ssa.Function // function containing the call
	PCLen   int
	Seq     int
	Kind    string // "call", "store", "return"
}

type State struct {
	Frames     []*Frame
	Heap       map[*Object]Value
	PC         []*Term
	Ghost      map[string]Value
	Events     []*Event
	PreHeap    map[*Object]Value
	PreGhost   map[string]Value
	Notes      []string // imprecision notes
	ID         int
	Depth      int
	Dead       bool
	Held       map[string]int
	DagObjs    map[string]*Object
	Open       map[*Object]bool   // ancestor walkers whose producer has not finished
	Written    map[*Object]bool   // pre-existing objects that were stored to or havocked
	Retained   map[*Object]string // buffers whose memory a decoded value may share (object -> the call that retained it)
	CutEvents  int                // number of events recorded when the innermost cut loop was entered
	LastReturn string
}

func (st *State) Top() *Frame { return st.Frames[len(st.Frames)-1] }

func (st *State) Clone() *State {
	n := &State{Depth: st.Depth}
	n.Frames = make([]*Frame, len(st.Frames))
	for i, f := range st.Frames {
		nf := *f
		nf.Locals = make(map[ssa.Value]Value, len(f.Locals))
		for k, v := range f.Locals {
			nf.Locals[k] = v
		}
		nf.Defers = append([]*deferred(nil), f.Defers...)
		nf.LoopHit = make(map[*ssa.BasicBlock]int, len(f.LoopHit))
		for k, v := range f.LoopHit {
			nf.LoopHit[k] = v
		}
		if f.Peeled != nil {
			nf.Peeled = make(map[*ssa.BasicBlock]bool, len(f.Peeled))
			for k, v := range f.Peeled {
				nf.Peeled[k] = v
			}
		}
		nf.Cut = make(map[*ssa.BasicBlock]bool, len(f.Cut))
		for k, v := range f.Cut {
			nf.Cut[k] = v
		}
		n.Frames[i] = &nf
	}
	n.Heap = make(map[*Object]Value, len(st.Heap))
	for k, v := range st.Heap {
		n.Heap[k] = v
	}
	n.PC = append([]*Term(nil), st.PC...)
	n.Ghost = make(map[string]Value, len(st.Ghost))
	for k, v := range st.Ghost {
		n.Ghost[k] = v
	}
	n.Events = append([]*Event(nil), st.Events...)
	n.PreHeap = make(map[*Object]Value, len(st.PreHeap))
	for k, v := range st.PreHeap {
		n.PreHeap[k] = v
	}
	n.Notes = append([]string(nil), st.Notes...)
	n.DagObjs = st.DagObjs
	n.CutEvents = st.CutEvents
	n.Written = make(map[*Object]bool, len(st.Written))
	for k, v := range st.Written {
		n.Written[k] = v
	}
	n.Open = st.Open
	if st.Retained != nil {
		n.Retained = make(map[*Object]string, len(st.Retained))
		for k, v := range st.Retained {
			n.Retained[k] = v
		}
	}
	n.PreGhost = make(map[string]Value, len(st.PreGhost))
	for k, v := range st.PreGhost {
		n.PreGhost[k] = v
	}
	n.Held = make(map[string]int, len(st.Held))
	for k, v := range st.Held {
		n.Held[k] = v
	}
	return n
}

func (st *State) Assume(t *Term) {
	if t.IsTrue() {
		return
	}
	if t.IsFalse() {
		st.Dead = true
		return
	}
	if t.Op == "and" {
		for _, a := range t.Args {
			st.Assume(a)
		}
		return
	}
	k := t.Key()
	nk := Not(t).Key()
	for _, p := range st.PC {
		if p.Key() == k {
			return
		}
		if p.Key() == nk {
			st.Dead = true
			return
		}
	}
	st.PC = append(st.PC, t)
}

// Decide returns (+1) if PC syntactically implies t, (-1) if it implies !t, 0 otherwise.
func (st *State) Decide(t *Term) int {
	if t.IsTrue() {
		return 1
	}
	if t.IsFalse() {
		return -1
	}
	k := t.Key()
	nk := Not(t).Key()
	for _, p := range st.PC {
		if p.Key() == k {
			return 1
		}
		if p.Key() == nk {
			return -1
		}
	}
	return 0
}

func (st *State) ObjVal(o *Object) Value {
	if v, ok := st.Heap[o]; ok {
		return v
	}
	return o.Initial()
}

func (st *State) PreObjVal(o *Object) Value {
	if v, ok := st.PreHeap[o]; ok {
		return v
	}
	return o.Initial()
}

type Obligation struct {
	Name      string
	Kind      string
	Fn        string
	Pos       token.Position
	PC        []*Term
	Goal      *Term
	Props     []string
	Note      string
	Imprecise bool
	Clause    *Clause
	Snap      *replaySnap
	Entry     string
	Seq       bool // byte strings are SMT sequences in this query (layout proofs)
	// results
	Result string // "unsat"(discharged) | "sat" | "unknown" | "folded"
	Solver string
	Secs   float64
	Model  map[string]string
	Raw    string
	SMT    string
}

func (o *Obligation) String() string {
	return fmt.Sprintf("%s [%s] %s", o.Name, o.Kind, o.Result)
}

var _ = types.Typ
