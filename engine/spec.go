package main

import (
	"bufio"
	"fmt"
	"go/ast"
	"go/parser"
	"go/token"
	"go/types"
	"math/big"
	"os"
	"path/filepath"
	"regexp"
	"strconv"
	"strings"

	"golang.org/x/tools/go/ssa"
)

type Clause struct {
	Kind    string // requires | ensures | invariant | assert
	Label   string
	Props   []string
	Src     string
	Expr    specExpr
	Loop    int
	Assumed bool   // an ensures clause that is used at call sites but not checked against the body
	Line    string // file:line
}

type specExpr struct {
	Op   string // "", "==>", "<==>", "not"
	L, R *specExpr
	E    ast.Expr
	Subs map[string]*specExpr // parenthesised sub-formulas containing ==> / <==>, referenced by placeholder names
}

type Contract struct {
	ErrOrigin           string       // module whose errors the function returns (trusted contracts of wrappers around a library)
	Peel                map[int]bool // loops (by ordinal) whose first iteration is executed before the cut
	Covers              []*Clause    // loop#k covers <slice>: the loop ranges over the whole of that slice and is not left early
	Key                 string       // package-local key as written
	Full                string       // ssa function name
	Props               []string
	Requires            []*Clause
	Ensures             []*Clause
	Invs                []*Clause
	Assigns             []ast.Expr
	HasAssign           bool
	PureFrame           bool // assigns nothing
	Trusted             bool // contract is assumed, not verified (must be listed in evidence)
	Inline              bool // verified on its own, but callers inline the body
	SeqMode             bool // obligations of this function are discharged with byte strings as SMT sequences
	EstablishesGraphInv bool // the function inserts unchecked vertices and validates them afterwards (LoadDag): the
	// "stored amounts are canonical" invariant is not assumed when it reads vertices back from the graph
	Callbacks  map[string]bool     // function-typed parameters declared `callback p assigns nothing` (callback frame)
	Mode       string              // "interference": verified with other goroutines allowed to change shared stores between calls
	Discipline map[string][]string // ghost protocol disciplines checked on this function: name -> props
	Effects    []*Effect
	File       string
	Pkg        string
	Temporal   []*Temporal
}

// Temporal obligations over the call history of one execution of the function.
type Temporal struct {
	Kind   string // "precede" | "respond" | "never"
	Label  string
	Props  []string
	Src    string
	A      string // pattern of the triggering call
	B      string // pattern of the required call
	Cond   *specExpr
	B2     string // alternative required call
	Cond2  *specExpr
	When   *specExpr // filter on the triggering call
	Unless *specExpr
	Line   string
}

// Effect updates a ghost predicate when a contract is applied at a call site.
type Effect struct {
	Cond      *specExpr
	Pred      string
	Arg       ast.Expr
	Value     bool
	Src       string
	Line      string
	Primitive bool      // the callee's outcome defines the predicate (not re-checked against the body)
	Var       string    // ghost integer variable updated (instead of a predicate)
	VarExpr   *specExpr // new value
}

type SpecFn struct {
	Name   string
	Params []string
	Body   specExpr
	Src    string
}

type SpecDB struct {
	Contracts    map[string]*Contract // by ssa function name
	Fns          map[string]*SpecFn
	Iface        map[string]string       // invoke name -> kind
	Pure         map[string]bool         // extern static callees with no side effects
	SeqDefs      map[string]*SeqDef      // definitions of uninterpreted functions that hold in sequence mode only
	ReadonlyArgs map[string]map[int]bool // extern callees: argument positions whose reachable memory is never written
	RetainsArgs  map[string]map[int]bool // extern callees: argument positions whose memory the result may share
	Files        []string
	Errors       []string
	UFs          map[string][]string // name -> arg sorts..., result sort
	GhostPreds   map[string]string   // name -> key sort
	GhostVars    map[string]bool
	Disjoint     [][2]string // pairs of uninterpreted functions with disjoint ranges
	Lemmas       []*Lemma
}

// Lemma is a closed formula over universally quantified variables, checked for all values.
type Lemma struct {
	Label string
	Props []string
	Vars  [][2]string // name, type
	Body  *specExpr
	Pkg   string
	Src   string
	Line  string
	Seq   bool // discharged in sequence mode
}

// SeqDef gives an uninterpreted function over byte strings its definition (used in sequence mode only).
type SeqDef struct {
	Name   string
	Params []string
	Body   *specExpr
	Line   string
}

func NewSpecDB() *SpecDB {
	return &SpecDB{Contracts: map[string]*Contract{}, Fns: map[string]*SpecFn{}, Iface: map[string]string{}, Pure: map[string]bool{}, ReadonlyArgs: map[string]map[int]bool{}, RetainsArgs: map[string]map[int]bool{}, SeqDefs: map[string]*SeqDef{}, UFs: map[string][]string{}, GhostPreds: map[string]string{}, GhostVars: map[string]bool{}}
}

var tagRe = regexp.MustCompile(`^\[([^\]]*)\]\s*`)

func parseTag(s string) (props []string, label, rest string) {
	m := tagRe.FindStringSubmatch(s)
	if m == nil {
		return nil, "", s
	}
	rest = s[len(m[0]):]
	tag := m[1]
	if i := strings.Index(tag, ":"); i >= 0 {
		for _, p := range strings.Split(tag[:i], ",") {
			if p = strings.TrimSpace(p); p != "" {
				props = append(props, p)
			}
		}
		label = strings.TrimSpace(tag[i+1:])
	} else {
		label = strings.TrimSpace(tag)
	}
	return
}

// splitTop splits s at the first top-level occurrence of op (outside parentheses/brackets/strings).
func splitTop(s, op string) (string, string, bool) {
	depth := 0
	inStr := false
	for i := 0; i+len(op) <= len(s); i++ {
		c := s[i]
		if inStr {
			if c == '"' {
				inStr = false
			}
			continue
		}
		switch c {
		case '"':
			inStr = true
		case '(', '[', '{':
			depth++
		case ')', ']', '}':
			depth--
		}
		if depth == 0 && strings.HasPrefix(s[i:], op) {
			// avoid matching "==>" inside "<==>"
			if op == "==>" && i > 0 && s[i-1] == '<' {
				continue
			}
			return s[:i], s[i+len(op):], true
		}
	}
	return s, "", false
}

func parseSpecExpr(s string) (*specExpr, error) {
	s = strings.TrimSpace(s)
	if l, r, ok := splitTop(s, "<==>"); ok {
		le, err := parseSpecExpr(l)
		if err != nil {
			return nil, err
		}
		re, err := parseSpecExpr(r)
		if err != nil {
			return nil, err
		}
		return &specExpr{Op: "<==>", L: le, R: re}, nil
	}
	if l, r, ok := splitTop(s, "==>"); ok {
		le, err := parseSpecExpr(l)
		if err != nil {
			return nil, err
		}
		re, err := parseSpecExpr(r)
		if err != nil {
			return nil, err
		}
		return &specExpr{Op: "==>", L: le, R: re}, nil
	}
	// a fully parenthesised sub-formula may contain ==> / <==>
	if strings.HasPrefix(s, "(") && (strings.Contains(s, "==>")) {
		depth := 0
		closeAt := -1
		for i, c := range s {
			if c == '(' {
				depth++
			} else if c == ')' {
				depth--
				if depth == 0 {
					closeAt = i
					break
				}
			}
		}
		if closeAt == len(s)-1 {
			return parseSpecExpr(s[1 : len(s)-1])
		}
	}
	if strings.HasPrefix(s, "!(") && strings.Contains(s, "==>") {
		inner, err := parseSpecExpr(s[1:])
		if err != nil {
			return nil, err
		}
		return &specExpr{Op: "not", L: inner}, nil
	}
	// parenthesised groups that contain an implication are parsed separately and replaced by placeholders
	subs := map[string]*specExpr{}
	if strings.Contains(s, "==>") {
		var out strings.Builder
		i := 0
		for i < len(s) {
			if s[i] == '(' {
				depth := 0
				j := i
				for ; j < len(s); j++ {
					if s[j] == '(' {
						depth++
					} else if s[j] == ')' {
						depth--
						if depth == 0 {
							break
						}
					}
				}
				grp := s[i : j+1]
				isCall := i > 0 && (isIdentChar(s[i-1]))
				if !isCall && strings.Contains(grp, "==>") && j < len(s) {
					sub, err := parseSpecExpr(grp[1 : len(grp)-1])
					if err != nil {
						return nil, err
					}
					name := fmt.Sprintf("sub__%d", len(subs))
					subs[name] = sub
					out.WriteString(name)
					i = j + 1
					continue
				}
			}
			out.WriteByte(s[i])
			i++
		}
		s = out.String()
	}
	e, err := parser.ParseExpr(s)
	if err != nil {
		return nil, fmt.Errorf("cannot parse %q: %v", s, err)
	}
	return &specExpr{E: e, Subs: subs}, nil
}

func isIdentChar(c byte) bool {
	return c == '_' || c >= 'a' && c <= 'z' || c >= 'A' && c <= 'Z' || c >= '0' && c <= '9'
}

// LoadSpecFile parses one contract file. pkgPath is the import path of its package.
func (db *SpecDB) LoadSpecFile(path, pkgPath string) {
	f, err := os.Open(path)
	if err != nil {
		return
	}
	defer f.Close()
	db.Files = append(db.Files, path)
	sc := bufio.NewScanner(f)
	sc.Buffer(make([]byte, 1<<20), 1<<20)
	var cur *Contract
	ln := 0
	fail := func(msg string) {
		db.Errors = append(db.Errors, fmt.Sprintf("%s:%d: %s", path, ln, msg))
	}
	for sc.Scan() {
		ln++
		line := strings.TrimSpace(sc.Text())
		if !strings.HasPrefix(line, "//@") {
			continue
		}
		line = strings.TrimSpace(line[3:])
		if i := strings.Index(line, " //"); i >= 0 {
			line = strings.TrimSpace(line[:i])
		}
		if line == "" {
			continue
		}
		where := fmt.Sprintf("%s:%d", filepath.Base(filepath.Dir(path))+"/"+filepath.Base(path), ln)
		word, rest := line, ""
		if i := strings.IndexAny(line, " \t"); i >= 0 {
			word, rest = line[:i], strings.TrimSpace(line[i+1:])
		}
		switch {
		case word == "spec":
			// spec NAME = expr | spec name(p T, ...) [type] = expr
			l, r, ok := splitTop(rest, "=")
			for ok && strings.HasPrefix(r, "=") { // skip "=="
				ok = false
			}
			if !ok {
				fail("spec without '='")
				continue
			}
			head := strings.TrimSpace(l)
			body, err := parseSpecExpr(r)
			if err != nil {
				fail(err.Error())
				continue
			}
			sf := &SpecFn{Body: *body, Src: rest}
			if i := strings.Index(head, "("); i >= 0 {
				sf.Name = strings.TrimSpace(head[:i])
				j := strings.LastIndex(head, ")")
				for _, p := range strings.Split(head[i+1:j], ",") {
					p = strings.TrimSpace(p)
					if p == "" {
						continue
					}
					sf.Params = append(sf.Params, strings.Fields(p)[0])
				}
			} else {
				sf.Name = strings.Fields(head)[0]
			}
			db.Fns[sf.Name] = sf
		case word == "func":
			key := rest
			mode := ""
			if i := strings.Index(key, " @"); i >= 0 {
				mode = strings.TrimSpace(key[i+2:])
				key = strings.TrimSpace(key[:i])
			}
			cur = &Contract{Key: key, Full: qualify(key, pkgPath), File: path, Pkg: pkgPath, Mode: mode}
			if mode != "" {
				cur.Full += "@" + mode
			}
			db.Contracts[cur.Full] = cur
		case word == "iface":
			parts := strings.Fields(rest)
			if len(parts) == 2 {
				db.Iface[parts[0]] = parts[1]
			} else {
				fail("iface needs: name kind")
			}
		case word == "disjoint":
			fs := strings.Fields(rest)
			if len(fs) != 2 {
				fail("disjoint needs two function names")
				continue
			}
			db.Disjoint = append(db.Disjoint, [2]string{fs[0], fs[1]})
		case word == "lemma":
			// lemma [props:label] forall x T, y U : formula
			props, label, body := parseTag(rest)
			body = strings.TrimSpace(body)
			seqLemma := false
			if strings.HasPrefix(body, "@seq ") {
				seqLemma = true
				body = strings.TrimSpace(body[5:])
			}
			if !strings.HasPrefix(body, "forall ") {
				fail("lemma needs: forall vars : formula")
				continue
			}
			i := strings.Index(body, " : ")
			if i < 0 {
				fail("lemma needs ' : ' after the variables")
				continue
			}
			lm := &Lemma{Label: label, Props: props, Pkg: pkgPath, Src: body, Line: where, Seq: seqLemma}
			for _, v := range strings.Split(body[len("forall "):i], ",") {
				f := strings.Fields(v)
				if len(f) != 2 {
					fail("lemma variable needs: name Type")
					continue
				}
				lm.Vars = append(lm.Vars, [2]string{f[0], f[1]})
			}
			se, err := parseSpecExpr(body[i+3:])
			if err != nil {
				fail(err.Error())
				continue
			}
			lm.Body = se
			db.Lemmas = append(db.Lemmas, lm)
		case word == "ghostvar":
			db.GhostVars[strings.TrimSpace(rest)] = true
		case word == "ghost":
			// ghost name(Sort)
			i := strings.Index(rest, "(")
			j := strings.Index(rest, ")")
			if i < 0 || j < i {
				fail("ghost syntax: ghost name(Sort)")
				continue
			}
			db.GhostPreds[strings.TrimSpace(rest[:i])] = strings.TrimSpace(rest[i+1 : j])
		case word == "purefn":
			db.Pure[rest] = true
		case word == "readonlyarg":
			// readonlyarg <external function> <index>...: the call never writes the memory reachable from these arguments
			f := strings.Fields(rest)
			if len(f) < 2 {
				fail("readonlyarg syntax: readonlyarg <function> <index>...")
				continue
			}
			if db.ReadonlyArgs[f[0]] == nil {
				db.ReadonlyArgs[f[0]] = map[int]bool{}
			}
			for _, x := range f[1:] {
				n, err := strconv.Atoi(x)
				if err != nil {
					fail("readonlyarg: bad index " + x)
					continue
				}
				db.ReadonlyArgs[f[0]][n] = true
			}
		case word == "retainsarg":
			// retainsarg <external function> <index>...: what the call returns or writes may share memory with these
			// arguments (a decoder that does not copy byte fields); see discipline retained-buffers-are-not-recycled
			f := strings.Fields(rest)
			if len(f) < 2 {
				fail("retainsarg syntax: retainsarg <function> <index>...")
				continue
			}
			if db.RetainsArgs[f[0]] == nil {
				db.RetainsArgs[f[0]] = map[int]bool{}
			}
			for _, x := range f[1:] {
				n, err := strconv.Atoi(x)
				if err != nil {
					fail("retainsarg: bad index " + x)
					continue
				}
				db.RetainsArgs[f[0]][n] = true
			}
		case word == "seqdef":
			// seqdef name(p1,p2,...) = expr   (expr over the parameters, cat, le64, ...)
			i := strings.Index(rest, "(")
			j := strings.Index(rest, ")")
			k := strings.Index(rest, "=")
			if i < 0 || j < i || k < j {
				fail("seqdef syntax: seqdef name(params) = expr")
				continue
			}
			sd := &SeqDef{Name: strings.TrimSpace(rest[:i]), Line: where}
			for _, p := range strings.Split(rest[i+1:j], ",") {
				if p = strings.TrimSpace(p); p != "" {
					sd.Params = append(sd.Params, p)
				}
			}
			se, err := parseSpecExpr(strings.TrimSpace(rest[k+1:]))
			if err != nil {
				fail(err.Error())
				continue
			}
			sd.Body = se
			db.SeqDefs[sd.Name] = sd
		case word == "uf":
			// uf name(S1,S2) S
			i := strings.Index(rest, "(")
			j := strings.Index(rest, ")")
			if i < 0 || j < i {
				fail("uf syntax")
				continue
			}
			var sig []string
			for _, s := range strings.Split(rest[i+1:j], ",") {
				if s = strings.TrimSpace(s); s != "" {
					sig = append(sig, s)
				}
			}
			sig = append(sig, strings.TrimSpace(rest[j+1:]))
			db.UFs[strings.TrimSpace(rest[:i])] = sig
		case cur == nil:
			fail("clause outside func: " + line)
		case word == "props":
			cur.Props = strings.Fields(rest)
		case word == "trusted":
			cur.Trusted = true
		case word == "inline":
			cur.Inline = true
		case word == "seqmode":
			cur.SeqMode = true
		case word == "errors-from":
			// errors-from <module>: the errors this (trusted, externally backed) function returns are made by that library
			cur.ErrOrigin = strings.TrimSpace(rest)
		case word == "establishes-graph-invariant":
			cur.EstablishesGraphInv = true
		case word == "callback":
			// callback <param> assigns nothing: calls through this function-typed parameter do not write memory that
			// is reachable from the other arguments (assumed when the function is verified, checked where it is called)
			f := strings.Fields(rest)
			if len(f) != 3 || f[1] != "assigns" || f[2] != "nothing" {
				fail("callback syntax: callback <param> assigns nothing")
				continue
			}
			if cur.Callbacks == nil {
				cur.Callbacks = map[string]bool{}
			}
			cur.Callbacks[f[0]] = true
		case word == "discipline":
			// discipline [props:label] walkers-drained | locks-released | no-graph-write-while-walking
			props, _, body := parseTag(rest)
			if props == nil {
				props = cur.Props
			}
			if cur.Discipline == nil {
				cur.Discipline = map[string][]string{}
			}
			switch strings.TrimSpace(body) {
			case "walkers-drained", "locks-released", "no-graph-write-while-walking", "goroutines-own-their-loop-variables", "retained-buffers-are-not-recycled":
			default:
				fail("unknown discipline: " + strings.TrimSpace(body))
				continue
			}
			cur.Discipline[strings.TrimSpace(body)] = props
		case word == "effect" || word == "defines":
			// effect <cond> : pred(arg) := true|false
			i := strings.LastIndex(rest, ":=")
			j := strings.LastIndex(rest[:max(i, 0)], " : ")
			if i < 0 || j < 0 {
				fail("effect syntax: effect <cond> : pred(arg) := true|false")
				continue
			}
			cond, err := parseSpecExpr(rest[:j])
			if err != nil {
				fail(err.Error())
				continue
			}
			lhs := strings.TrimSpace(rest[j+3 : i])
			if db.GhostVars[lhs] {
				ve, err := parseSpecExpr(rest[i+2:])
				if err != nil {
					fail(err.Error())
					continue
				}
				cur.Effects = append(cur.Effects, &Effect{Cond: cond, Var: lhs, VarExpr: ve, Src: rest, Line: where, Primitive: true})
				continue
			}
			call, err := parser.ParseExpr(lhs)
			if err != nil {
				fail(err.Error())
				continue
			}
			ce, ok := call.(*ast.CallExpr)
			if !ok || len(ce.Args) != 1 {
				fail("effect target must be pred(arg)")
				continue
			}
			id, _ := ce.Fun.(*ast.Ident)
			if id == nil {
				fail("effect target must be pred(arg)")
				continue
			}
			cur.Effects = append(cur.Effects, &Effect{Cond: cond, Pred: id.Name, Arg: ce.Args[0], Value: strings.TrimSpace(rest[i+2:]) == "true", Src: rest, Line: where, Primitive: word == "defines"})
		case word == "pure":
			cur.PureFrame = true
			cur.HasAssign = true
		case word == "assigns":
			cur.HasAssign = true
			if rest == "nothing" {
				cur.PureFrame = true
				continue
			}
			for _, a := range splitArgs(rest) {
				e, err := parser.ParseExpr(a)
				if err != nil {
					fail(err.Error())
					continue
				}
				cur.Assigns = append(cur.Assigns, e)
			}
		case word == "requires" || word == "ensures" || word == "assumes":
			// assumes [label] expr: a postcondition that is USED at call sites but not checked against the body (an
			// invariant of external state, e.g. of what the store holds); listed in the evidence as an assumption
			props, label, body := parseTag(rest)
			se, err := parseSpecExpr(body)
			if err != nil {
				fail(err.Error())
				continue
			}
			if props == nil {
				props = cur.Props
			}
			cl := &Clause{Kind: word, Label: label, Props: props, Src: body, Expr: *se, Line: where}
			if word == "assumes" {
				cl.Kind = "ensures"
				cl.Assumed = true
			}
			if word == "requires" {
				cur.Requires = append(cur.Requires, cl)
			} else {
				cur.Ensures = append(cur.Ensures, cl)
			}
		case strings.HasPrefix(word, "loop#"):
			n, err := strconv.Atoi(word[5:])
			if err != nil {
				fail("bad loop ordinal")
				continue
			}
			w2, r2 := rest, ""
			if i := strings.IndexAny(rest, " \t"); i >= 0 {
				w2, r2 = rest[:i], strings.TrimSpace(rest[i+1:])
			}
			if w2 == "peel" {
				// loop#k peel: the first iteration is executed from the state before the loop (a range over a map
				// that is known to be non-empty then yields an element); the loop is cut at the second arrival
				if cur.Peel == nil {
					cur.Peel = map[int]bool{}
				}
				cur.Peel[n] = true
				continue
			}
			if w2 == "covers" {
				// loop#k covers [props:label] <slice expr>: see covers.go
				props, label, body := parseTag(r2)
				se, err := parseSpecExpr(body)
				if err != nil {
					fail(err.Error())
					continue
				}
				if props == nil {
					props = cur.Props
				}
				cur.Covers = append(cur.Covers, &Clause{Kind: "covers", Label: label, Props: props, Src: body, Expr: *se, Loop: n, Line: where})
				continue
			}
			if w2 != "invariant" {
				fail("expected 'invariant', 'covers' or 'peel'")
				continue
			}
			props, label, body := parseTag(r2)
			se, err := parseSpecExpr(body)
			if err != nil {
				fail(err.Error())
				continue
			}
			if props == nil {
				props = cur.Props
			}
			cur.Invs = append(cur.Invs, &Clause{Kind: "invariant", Label: label, Props: props, Src: body, Expr: *se, Loop: n, Line: where})
		case word == "precede" || word == "respond" || word == "never":
			t, err := parseTemporal(word, rest, cur.Props)
			if err != nil {
				fail(err.Error())
				continue
			}
			t.Line = where
			cur.Temporal = append(cur.Temporal, t)
		default:
			fail("unknown clause: " + line)
		}
	}
}

func splitArgs(s string) []string {
	var out []string
	depth := 0
	start := 0
	for i, c := range s {
		switch c {
		case '(', '[':
			depth++
		case ')', ']':
			depth--
		case ',':
			if depth == 0 {
				out = append(out, strings.TrimSpace(s[start:i]))
				start = i + 1
			}
		}
	}
	if strings.TrimSpace(s[start:]) != "" {
		out = append(out, strings.TrimSpace(s[start:]))
	}
	return out
}

// qualify turns "(*Melange).Supply" into the ssa name "(*<pkg>.Melange).Supply".
func qualify(key, pkg string) string {
	if strings.HasPrefix(key, "(") {
		i := strings.Index(key, ")")
		recv := key[1:i]
		star := ""
		if strings.HasPrefix(recv, "*") {
			star = "*"
			recv = recv[1:]
		}
		return "(" + star + pkg + "." + recv + ")" + key[i+1:]
	}
	return pkg + "." + key
}

// ---------- evaluation ----------

type nilMarker struct{}

type Env struct {
	ex       *Exec
	st       *State
	old      map[*Object]Value // heap snapshot for old(); nil => st.PreHeap
	inOld    bool
	names    map[string]Value
	types    map[string]types.Type
	errs     *[]string
	oldGhost map[string]Value
	subs     map[string]*specExpr
}

func (e *Env) fail(format string, a ...interface{}) Value {
	msg := fmt.Sprintf(format, a...)
	if e.errs != nil {
		*e.errs = append(*e.errs, msg)
	}
	return nil
}

func (e *Env) derefObj(o *Object) Value {
	if e.inOld {
		if e.old != nil {
			if v, ok := e.old[o]; ok {
				return v
			}
			return e.ex.objVal(e.st, o)
		}
		if v, ok := e.st.PreHeap[o]; ok {
			return v
		}
		e.ex.objVal(e.st, o)
		return e.st.PreHeap[o]
	}
	return e.ex.objVal(e.st, o)
}

func (e *Env) loadPtr(p *PtrV) Value {
	if p.Obj == nil {
		return e.fail("dereference of nil pointer in spec")
	}
	return e.ex.readPath(e.st, e.derefObj(p.Obj), p.Path, p.Obj.Typ)
}

func (e *Env) evalBool(se *specExpr) *Term {
	switch se.Op {
	case "==>":
		l := e.evalBool(se.L)
		if l != nil && l.IsFalse() {
			return TTrue
		}
		r := e.evalBool(se.R)
		if l == nil || r == nil {
			return nil
		}
		return Implies(l, r)
	case "<==>":
		l, r := e.evalBool(se.L), e.evalBool(se.R)
		if l == nil || r == nil {
			return nil
		}
		return Iff(l, r)
	case "not":
		l := e.evalBool(se.L)
		if l == nil {
			return nil
		}
		return Not(l)
	}
	if len(se.Subs) > 0 {
		saved := e.subs
		e.subs = se.Subs
		defer func() { e.subs = saved }()
	}
	v := e.eval(se.E)
	t, ok := v.(*Term)
	if !ok || t.Sort != SBool {
		if v != nil {
			e.fail("expression is not boolean: %s", exprString(se.E))
		}
		return nil
	}
	return t
}

func exprString(x ast.Expr) string {
	var sb strings.Builder
	_ = sb
	return types.ExprString(x)
}

func (e *Env) eval(x ast.Expr) Value {
	switch n := x.(type) {
	case *ast.ParenExpr:
		return e.eval(n.X)
	case *ast.BasicLit:
		switch n.Kind {
		case token.INT:
			bi, ok := new(big.Int).SetString(strings.ReplaceAll(n.Value, "_", ""), 0)
			if !ok {
				return e.fail("bad int literal %s", n.Value)
			}
			return IntB(bi)
		case token.STRING:
			s, _ := strconv.Unquote(n.Value)
			return e.ex.G.StrConst(s)
		}
		return e.fail("unsupported literal %s", n.Value)
	case *ast.Ident:
		switch n.Name {
		case "nil":
			return nilMarker{}
		case "true":
			return TTrue
		case "false":
			return TFalse
		}
		if sub, ok := e.subs[n.Name]; ok {
			r := e.evalBool(sub)
			if r == nil {
				return nil
			}
			return r
		}
		if v, ok := e.names[n.Name]; ok {
			return v
		}
		if e.ex.Specs.GhostVars[n.Name] {
			key := "gv:" + n.Name
			if e.inOld {
				if e.oldGhost != nil {
					if v, ok := e.oldGhost[key]; ok {
						return v
					}
				} else if v, ok := e.st.PreGhost[key]; ok {
					return v
				}
			}
			return e.ex.ghostVar(e.st, n.Name)
		}
		if g, ok := e.st.Ghost[n.Name]; ok {
			if e.inOld && e.oldGhost != nil {
				if og, ok := e.oldGhost[n.Name]; ok {
					return og
				}
			}
			return g
		}
		if sf, ok := e.ex.Specs.Fns[n.Name]; ok && len(sf.Params) == 0 {
			sub := &Env{ex: e.ex, st: e.st, old: e.old, inOld: e.inOld, names: map[string]Value{}, errs: e.errs}
			return sub.evalSE(&sf.Body)
		}
		// package-level variables of the verified function's package (error values, constants)
		if e.ex.entry != nil && e.ex.entry.Pkg != nil {
			if g, ok := e.ex.entry.Pkg.Members[n.Name].(*ssa.Global); ok {
				return e.loadPtr(&PtrV{Nil: TFalse, Obj: e.ex.globalObj(g)})
			}
			if c, ok := e.ex.entry.Pkg.Members[n.Name].(*ssa.NamedConst); ok {
				return e.ex.constVal(c.Value)
			}
		}
		for _, p := range e.ex.Prog.AllPackages() {
			if !strings.HasPrefix(p.Pkg.Path(), modulePrefix) {
				continue
			}
			if g, ok := p.Members[n.Name].(*ssa.Global); ok {
				return e.loadPtr(&PtrV{Nil: TFalse, Obj: e.ex.globalObj(g)})
			}
		}
		return e.fail("unknown identifier %s", n.Name)
	case *ast.StarExpr:
		v := e.eval(n.X)
		p, ok := v.(*PtrV)
		if !ok {
			return e.fail("* applied to non-pointer %s", exprString(n.X))
		}
		return e.loadPtr(p)
	case *ast.UnaryExpr:
		v := e.eval(n.X)
		switch n.Op {
		case token.NOT:
			if t, ok := v.(*Term); ok && t.Sort == SBool {
				return Not(t)
			}
		case token.SUB:
			if t, ok := v.(*Term); ok && t.Sort == SInt {
				return Sub(IntC(0), t)
			}
		case token.AND:
			return e.fail("address-of not supported in specs")
		}
		return e.fail("bad unary expression %s", exprString(x))
	case *ast.SelectorExpr:
		if id, ok := n.X.(*ast.Ident); ok {
			if _, isName := e.names[id.Name]; !isName {
				// package-qualified constants
				switch id.Name + "." + n.Sel.Name {
				case "math.MaxUint64":
					return IntB(new(big.Int).Sub(Pow2(64), big.NewInt(1)))
				case "math.MaxInt64":
					return IntB(new(big.Int).Sub(Pow2(63), big.NewInt(1)))
				}
				if g := e.ex.lookupGlobal(id.Name, n.Sel.Name); g != nil {
					return e.loadPtr(&PtrV{Nil: TFalse, Obj: e.ex.globalObj(g)})
				}
			}
		}
		v := e.eval(n.X)
		if v == nil {
			return nil
		}
		return e.field(v, n.Sel.Name, x)
	case *ast.IndexExpr:
		base := e.eval(n.X)
		idx := e.eval(n.Index)
		if base == nil || idx == nil {
			return nil
		}
		switch b := base.(type) {
		case *Term:
			if strings.HasPrefix(b.Sort, "(Array ") {
				if it, ok := idx.(*Term); ok {
					return Select(b, it)
				}
			}
			if b.Sort == SB {
				if it, ok := idx.(*Term); ok {
					return e.ex.G.BAt(b, it)
				}
			}
		case *ArrV:
			if it, ok := idx.(*Term); ok {
				return e.ex.readPath(e.st, b, []PathEl{{Idx: it}}, nil)
			}
		case *SliceV:
			if it, ok := idx.(*Term); ok && b.Obj != nil {
				p := &PtrV{Nil: TFalse, Obj: b.Obj, Path: append(append([]PathEl(nil), b.Path...), PathEl{Idx: Add(b.Off, it)})}
				return e.loadPtr(p)
			}
		case *MapV:
			return e.fail("map indexing in specs: use has(m,k) / get(m,k)")
		}
		return e.fail("bad index expression %s", exprString(x))
	case *ast.CallExpr:
		return e.call(n)
	case *ast.BinaryExpr:
		return e.binary(n)
	}
	return e.fail("unsupported spec expression %s", exprString(x))
}

func (e *Env) evalSE(se *specExpr) Value {
	if se.Op != "" {
		return e.evalBool(se)
	}
	if len(se.Subs) > 0 {
		saved := e.subs
		e.subs = se.Subs
		defer func() { e.subs = saved }()
	}
	return e.eval(se.E)
}

func (e *Env) field(v Value, name string, x ast.Expr) Value {
	if p, ok := v.(*PtrV); ok {
		v = e.loadPtr(p)
		if v == nil {
			return nil
		}
	}
	if iv, ok := v.(*IfaceV); ok && iv.Val != nil {
		return e.field(iv.Val, name, x)
	}
	if _, isNil := v.(nilMarker); isNil {
		// lastArg / lastResult found no matching call on this path
		return e.fail("no-event: %s", exprString(x))
	}
	sv, ok := v.(*StructV)
	if !ok {
		if eventRooted(x) {
			// the event that matched the pattern is of another shape (an append of other elements, a store of another
			// type): the clause does not talk about it
			return e.fail("other-shape: %s is not a struct in this event", exprString(x))
		}
		return e.fail("selector .%s on non-struct in %s", name, exprString(x))
	}
	for i := 0; i < sv.T.NumFields(); i++ {
		if sv.T.Field(i).Name() == name {
			return sv.F[i]
		}
	}
	// promoted fields through embedded structs
	for i := 0; i < sv.T.NumFields(); i++ {
		if sv.T.Field(i).Embedded() {
			if inner, ok := sv.F[i].(*StructV); ok {
				for j := 0; j < inner.T.NumFields(); j++ {
					if inner.T.Field(j).Name() == name {
						return inner.F[j]
					}
				}
			}
		}
	}
	if i := baselineFieldIndex(sv.T, name); i >= 0 {
		return sv.F[i] // the field was renamed since the contract was written
	}
	return e.fail("no field %s in %s", name, exprString(x))
}

func (e *Env) binary(n *ast.BinaryExpr) Value {
	if n.Op == token.LAND || n.Op == token.LOR {
		l := e.eval(n.X)
		// short-circuit: a decided left operand guards the right one (p == nil || p.f ...)
		if lt, ok := l.(*Term); ok && lt.Sort == SBool {
			if n.Op == token.LOR && lt.IsTrue() {
				return TTrue
			}
			if n.Op == token.LAND && lt.IsFalse() {
				return TFalse
			}
		}
		r := e.eval(n.Y)
		lt, ok1 := l.(*Term)
		rt, ok2 := r.(*Term)
		if !ok1 || !ok2 || lt.Sort != SBool || rt.Sort != SBool {
			return e.fail("non-boolean operand in %s", exprString(n))
		}
		if n.Op == token.LAND {
			return And(lt, rt)
		}
		return Or(lt, rt)
	}
	l, r := e.eval(n.X), e.eval(n.Y)
	if l == nil || r == nil {
		return nil
	}
	if n.Op == token.EQL || n.Op == token.NEQ {
		var eq *Term
		_, ln := l.(nilMarker)
		_, rn := r.(nilMarker)
		switch {
		case ln && rn:
			eq = TTrue
		case ln:
			eq = e.ex.nilTerm(r)
		case rn:
			eq = e.ex.nilTerm(l)
		default:
			lt, ok1 := l.(*Term)
			rt, ok2 := r.(*Term)
			if ok1 && ok2 && lt.Sort != rt.Sort {
				return e.fail("sort mismatch in %s (%s vs %s)", exprString(n), lt.Sort, rt.Sort)
			}
			eq = e.ex.valEq(e.st, l, r, nil)
		}
		if n.Op == token.NEQ {
			return Not(eq)
		}
		return eq
	}
	lt, ok1 := l.(*Term)
	rt, ok2 := r.(*Term)
	if !ok1 || !ok2 || lt.Sort != SInt || rt.Sort != SInt {
		return e.fail("non-integer operand in %s", exprString(n))
	}
	switch n.Op {
	case token.ADD:
		return Add(lt, rt)
	case token.SUB:
		return Sub(lt, rt)
	case token.MUL:
		return Mul(lt, rt)
	case token.QUO:
		return Div(lt, rt)
	case token.REM:
		return Mod(lt, rt)
	case token.LSS:
		return Lt(lt, rt)
	case token.LEQ:
		return Le(lt, rt)
	case token.GTR:
		return Gt(lt, rt)
	case token.GEQ:
		return Ge(lt, rt)
	}
	return e.fail("unsupported operator in %s", exprString(n))
}

func (e *Env) call(n *ast.CallExpr) Value {
	id, ok := n.Fun.(*ast.Ident)
	if !ok {
		return e.fail("unsupported call %s", exprString(n))
	}
	switch id.Name {
	case "old":
		sub := *e
		sub.inOld = true
		return sub.eval(n.Args[0])
	case "len":
		v := e.eval(n.Args[0])
		if v == nil {
			return nil
		}
		if m, ok := v.(*MapV); ok {
			if m.Obj == nil {
				return IntC(0)
			}
			ms, _ := e.derefObj(m.Obj).(*MapState)
			if ms != nil {
				return ms.Len
			}
		}
		return e.ex.lenOf(e.st, v, nil)
	case "cap":
		v := e.eval(n.Args[0])
		if s, ok := v.(*SliceV); ok {
			return s.Cap
		}
		return e.fail("cap of non-slice")
	case "bytes":
		v := e.eval(n.Args[0])
		switch s := v.(type) {
		case *SliceV:
			if s.Obj == nil {
				return e.ex.G.StrConst("")
			}
			bv := e.ex.readPath(e.st, e.derefObj(s.Obj), s.Path, s.Obj.Typ)
			back, ok := bv.(*Term)
			if ok && back.Sort == SB {
				return e.ex.G.BSub(back, s.Off, s.Len)
			}
			if s.Len.IsConstInt() && s.Len.I.Sign() == 0 {
				return e.ex.G.StrConst("")
			}
			if av, isArr := bv.(*ArrV); isArr && isByte(av.Elem) && s.Off.IsConstInt() && s.Len.IsConstInt() && s.Off.I.IsInt64() && s.Len.I.IsInt64() {
				lo, n := int(s.Off.I.Int64()), int(s.Len.I.Int64())
				if lo >= 0 && n >= 0 && lo+n <= len(av.E) {
					return e.ex.bytesOfCells(av.E[lo : lo+n])
				}
			}
		case *Term:
			if s.Sort == SB {
				return s
			}
		}
		return e.fail("bytes() of non byte slice")
	case "has", "get":
		m, ok := e.eval(n.Args[0]).(*MapV)
		k, ok2 := e.eval(n.Args[1]).(*Term)
		if !ok || !ok2 || m.Obj == nil {
			return e.fail("has/get need (map, key)")
		}
		ms, _ := e.derefObj(m.Obj).(*MapState)
		if ms == nil || k.Sort != arrKeySort(ms.Has.Sort) {
			return e.fail("has/get on unmodelled map")
		}
		if id.Name == "has" {
			return And(Not(m.Nil), Select(ms.Has, k))
		}
		if ms.Vals == nil || hasNilLeaf(ms.Vals) {
			return e.fail("map values not modelled")
		}
		// like Go's m[k]: the zero value when the key is absent
		return e.ex.iteVal(And(Not(m.Nil), Select(ms.Has, k)), shapeSelect(ms.Vals, k), e.ex.G.Zero(m.T.Elem()), m.T.Elem())
	case "ite":
		c, ok := e.eval(n.Args[0]).(*Term)
		a, b := e.eval(n.Args[1]), e.eval(n.Args[2])
		if !ok || a == nil || b == nil {
			return nil
		}
		return e.ex.iteVal(c, a, b, nil)
	case "verifyOK":
		// verifyOK(msg, sig, hash, addr): the signature verifier accepted (Verify returned nil)
		if len(n.Args) != 4 {
			return e.fail("verifyOK needs (message, signature, hash, address)")
		}
		var ts []*Term
		for _, a := range n.Args {
			t, ok := e.ex.argTerm(e.st, e.evalBytesArg(a))
			if !ok {
				return e.fail("verifyOK: argument %s is not a term", exprString(a))
			}
			ts = append(ts, t)
		}
		return Eq(App("g_Verify_r0", SInt, ts...), IntC(0))
	case "local", "loopvar":
		// local("x"): current value of the local variable x in the function that is executing (event time);
		// loopvar("x"): value x had at the start of the current iteration of the innermost cut loop
		lit, ok := n.Args[0].(*ast.BasicLit)
		if !ok || len(e.st.Frames) == 0 {
			return e.fail("%s needs a string literal", id.Name)
		}
		nm, _ := strconv.Unquote(lit.Value)
		fr := e.st.Top()
		if id.Name == "loopvar" {
			li := e.ex.loopInfo(fr.Fn)
			var best *Loop
			for _, lp := range li.Loops {
				if fr.Cut[lp.Header] && lp.Body[fr.Block] {
					if best == nil || len(lp.Body) < len(best.Body) {
						best = lp
					}
				}
			}
			if best != nil {
				for _, ins := range best.Header.Instrs {
					if phi, ok := ins.(*ssa.Phi); ok && phi.Comment == nm {
						if v, ok := fr.Locals[phi]; ok {
							return v
						}
					}
				}
			}
			return e.fail("no-event: loop variable %s", nm)
		}
		if v, ok := fr.Names[nm]; ok {
			return v
		}
		if v, ok := fr.Names["&"+nm]; ok {
			if p, ok := v.(*PtrV); ok {
				return e.loadPtr(p)
			}
		}
		for i, prm := range fr.Fn.Params {
			if prm.Name() == nm && i < len(fr.Args) {
				return fr.Args[i]
			}
		}
		return e.fail("no-event: local %s", nm)
	case "errIs":
		// errIs(err, Sentinel): errors.Is over the error's known structure (joins, wraps)
		a, ok1 := e.eval(n.Args[0]).(*IfaceV)
		b, ok2 := e.eval(n.Args[1]).(*IfaceV)
		if !ok1 || !ok2 {
			return e.fail("errIs needs two error values")
		}
		return e.ex.errIs(a, b, 0)
	case "isfunc":
		// isfunc(f, "suffix"): the function value f is (a closure of) the function whose name ends in suffix
		fv, ok := e.eval(n.Args[0]).(*FuncV)
		lit, ok2 := n.Args[1].(*ast.BasicLit)
		if !ok || !ok2 {
			return e.fail("isfunc needs (function value, string literal)")
		}
		suf, _ := strconv.Unquote(lit.Value)
		return BoolC(fv.Fn != nil && strings.HasSuffix(canonFn(fv.Fn.String()), suf))
	case "lastArg":
		// lastArg("pattern", k): k-th argument (receiver first) of the most recent call matching the pattern
		lit, ok := n.Args[0].(*ast.BasicLit)
		kl, ok2 := n.Args[1].(*ast.BasicLit)
		if !ok || !ok2 {
			return e.fail("lastArg needs (string literal, index literal)")
		}
		pat, _ := strconv.Unquote(lit.Value)
		k, _ := strconv.Atoi(kl.Value)
		for i := len(e.st.Events) - 1; i >= 0; i-- {
			ev := e.st.Events[i]
			if eventMatches(ev, pat) && k < len(ev.Args) {
				return ev.Args[k]
			}
		}
		return nilMarker{}
	case "lastResult":
		// lastResult("pattern", k): k-th result of the most recent call matching the pattern on this path
		lit, ok := n.Args[0].(*ast.BasicLit)
		kl, ok2 := n.Args[1].(*ast.BasicLit)
		if !ok || !ok2 {
			return e.fail("lastResult needs (string literal, index literal)")
		}
		pat, _ := strconv.Unquote(lit.Value)
		k, _ := strconv.Atoi(kl.Value)
		for i := len(e.st.Events) - 1; i >= 0; i-- {
			ev := e.st.Events[i]
			if eventMatches(ev, pat) && k < len(ev.Results) {
				return ev.Results[k]
			}
		}
		return nilMarker{}
	case "heldw", "heldr":
		p, ok := e.eval(n.Args[0]).(*PtrV)
		if !ok {
			// address of a mutex field: evaluate as lvalue
			p = e.lvalueExpr(n.Args[0])
		}
		if p == nil {
			return e.fail("%s needs the mutex (e.g. ab.mux)", id.Name)
		}
		k := "w:" + lockKey(p)
		if id.Name == "heldr" {
			k = "r:" + lockKey(p)
		}
		return BoolC(e.st.Held[k] > 0)
	case "walking":
		return BoolC(len(e.st.Open) > 0)
	case "addressOf":
		iv, ok := e.eval(n.Args[0]).(*IfaceV)
		if !ok {
			return e.fail("addressOf needs a signer")
		}
		return App("p_Address_r0", SB, iv.ID)
	case "zero32":
		return e.ex.G.BZero(IntC(32))
	case "called":
		// called("pattern"): some call matching the pattern happened on this path (decided per path)
		lit, ok := n.Args[0].(*ast.BasicLit)
		if !ok || lit.Kind != token.STRING {
			return e.fail("called needs a string literal")
		}
		pat, _ := strconv.Unquote(lit.Value)
		for _, ev := range e.st.Events {
			if eventMatches(ev, pat) {
				return TTrue
			}
		}
		return TFalse
	case "u64":
		t, ok := e.eval(n.Args[0]).(*Term)
		if !ok || t.Sort != SInt {
			return e.fail("u64 of non-integer")
		}
		return Ite(Lt(t, IntC(0)), Add(t, IntB(Pow2(64))), t)
	case "unwrap":
		v := e.eval(n.Args[0])
		if iv, ok := v.(*IfaceV); ok && iv.Val != nil {
			return iv.Val
		}
		return e.fail("unwrap: dynamic value of %s is unknown", exprString(n.Args[0]))
	case "sameobj":
		a, ok1 := e.eval(n.Args[0]).(*PtrV)
		b, ok2 := e.eval(n.Args[1]).(*PtrV)
		if !ok1 || !ok2 {
			return e.fail("sameobj needs two pointers")
		}
		return BoolC(a.Obj != nil && a.Obj == b.Obj)
	case "storesfield":
		// storesfield(p, "name"): the pointer (second argument of a mem.store event) addresses the field with that name
		p, ok := e.eval(n.Args[0]).(*PtrV)
		lit, ok2 := n.Args[1].(*ast.BasicLit)
		if !ok || !ok2 || p.Obj == nil {
			return e.fail("storesfield needs (pointer, \"field name\")")
		}
		want, _ := strconv.Unquote(lit.Value)
		t := p.Obj.Typ
		name := ""
		var lastStruct *types.Struct
		lastIdx := -1
		for _, pe := range p.Path {
			switch u := t.Underlying().(type) {
			case *types.Struct:
				if pe.Idx == nil && pe.SubN == 0 && pe.Field < u.NumFields() {
					name = u.Field(pe.Field).Name()
					lastStruct, lastIdx = u, pe.Field
					t = u.Field(pe.Field).Type()
					continue
				}
			case *types.Array:
				t = u.Elem()
			case *types.Slice:
				t = u.Elem()
			}
			name, lastStruct, lastIdx = "", nil, -1
		}
		if name != want && lastStruct != nil && baselineFieldIndex(lastStruct, want) == lastIdx {
			return TTrue // the field was renamed since the contract was written
		}
		return BoolC(name == want)
	case "fileexists", "filecontent":
		k, ok := e.ex.argTerm(e.st, e.evalBytesArg(n.Args[0]))
		if !ok || k.Sort != SB {
			return e.fail("%s needs a path", id.Name)
		}
		key, sort, hint := "fs:has", ArrSort(SB, SBool), "fs_has"
		if id.Name == "filecontent" {
			key, sort, hint = "fs:val", ArrSort(SB, SB), "fs_val"
		}
		cur := e.ex.ghostArr(e.st, key, sort, hint)
		if e.inOld {
			if e.oldGhost != nil {
				if v, ok := e.oldGhost[key]; ok {
					cur = v.(*Term)
				}
			} else if v, ok := e.st.PreGhost[key]; ok {
				cur = v.(*Term)
			}
		}
		return Select(cur, k)
	case "cachehas", "cacheget":
		o := objOf(e.eval(n.Args[0]))
		k, ok := e.ex.argTerm(e.st, e.evalBytesArg(n.Args[1]))
		if o == nil || !ok || k.Sort != SB {
			return e.fail("%s needs (cache, key)", id.Name)
		}
		hk, vk := fmt.Sprintf("bc:%d:has", o.ID), fmt.Sprintf("bc:%d:val", o.ID)
		pick := func(key, sort, hint string) *Term {
			cur := e.ex.ghostArr(e.st, key, sort, hint)
			if e.inOld {
				if e.oldGhost != nil {
					if v, ok := e.oldGhost[key]; ok {
						return v.(*Term)
					}
				} else if v, ok := e.st.PreGhost[key]; ok {
					return v.(*Term)
				}
			}
			return cur
		}
		if id.Name == "cachehas" {
			return Select(pick(hk, ArrSort(SB, SBool), "bc_has"), k)
		}
		return Select(pick(vk, ArrSort(SB, SB), "bc_val"), k)
	case "present", "edge", "dbhas", "dbget", "vertexid":
		o := objOf(e.eval(n.Args[0]))
		if o == nil {
			return e.fail("%s: first argument must be a pointer to the graph / database", id.Name)
		}
		var ks []*Term
		for _, a := range n.Args[1:] {
			t, ok := e.ex.argTerm(e.st, e.evalBytesArg(a))
			if !ok || t.Sort != SB {
				return e.fail("%s: key %s is not a byte string", id.Name, exprString(a))
			}
			ks = append(ks, t)
		}
		g := func(key, sort, hint string) *Term {
			if e.inOld {
				if e.oldGhost != nil {
					if v, ok := e.oldGhost[key]; ok {
						return v.(*Term)
					}
				} else if v, ok := e.st.PreGhost[key]; ok {
					return v.(*Term)
				}
			}
			t := e.ex.ghostArr(e.st, key, sort, hint)
			if e.inOld && e.oldGhost == nil {
				return e.st.PreGhost[key].(*Term)
			}
			return t
		}
		switch id.Name {
		case "present":
			return Neq(Select(g(fmt.Sprintf("dag:%d:vtx", o.ID), ArrSort(SB, SInt), "dag_vtx"), ks[0]), IntC(0))
		case "vertexid":
			return Select(g(fmt.Sprintf("dag:%d:vtx", o.ID), ArrSort(SB, SInt), "dag_vtx"), ks[0])
		case "edge":
			return Select(Select(g(fmt.Sprintf("dag:%d:edge", o.ID), ArrSort(SB, ArrSort(SB, SBool)), "dag_edge"), ks[0]), ks[1])
		case "dbhas":
			return Select(g(fmt.Sprintf("db:%d:has", o.ID), ArrSort(SB, SBool), "db_has"), ks[0])
		case "dbget":
			return Select(g(fmt.Sprintf("db:%d:val", o.ID), ArrSort(SB, SB), "db_val"), ks[0])
		}
	case "unixnano":
		t, ok := e.eval(n.Args[0]).(*Term)
		if !ok {
			return e.fail("unixnano of non-time")
		}
		return App("time_unixnano", SInt, t)
	case "le64":
		v, ok := e.eval(n.Args[0]).(*Term)
		if !ok {
			return nil
		}
		return App("le64", SB, v)
	case "cat":
		var r *Term
		for _, a := range n.Args {
			v, ok := e.eval(a).(*Term)
			if !ok || v.Sort != SB {
				return e.fail("cat needs byte strings")
			}
			if r == nil {
				r = v
			} else {
				r = e.ex.G.BCat(r, v)
			}
		}
		return r
	}
	if sf, ok := e.ex.Specs.Fns[id.Name]; ok {
		if len(sf.Params) != len(n.Args) {
			return e.fail("spec function %s expects %d args", id.Name, len(sf.Params))
		}
		sub := &Env{ex: e.ex, st: e.st, old: e.old, inOld: e.inOld, names: map[string]Value{}, errs: e.errs, oldGhost: e.oldGhost}
		for i, p := range sf.Params {
			v := e.eval(n.Args[i])
			if v == nil {
				return nil
			}
			sub.names[p] = v
		}
		return sub.evalSE(&sf.Body)
	}
	if ks, ok := e.ex.Specs.GhostPreds[id.Name]; ok {
		t, ok := e.ex.argTerm(e.st, e.evalBytesArg(n.Args[0]))
		if !ok || t.Sort != ks {
			return e.fail("ghost predicate %s needs an argument of sort %s", id.Name, ks)
		}
		key := "gp:" + id.Name
		if e.inOld {
			if e.oldGhost != nil {
				if v, ok := e.oldGhost[key]; ok {
					return Select(v.(*Term), t)
				}
			} else if v, ok := e.st.PreGhost[key]; ok {
				return Select(v.(*Term), t)
			}
		}
		return Select(e.ex.ghostPred(e.st, id.Name), t)
	}
	if sig, ok := e.ex.Specs.UFs[id.Name]; ok {
		var args []*Term
		for _, a := range n.Args {
			v := e.evalBytesArg(a)
			t, ok := e.ex.argTerm(e.st, v)
			if !ok {
				return e.fail("argument of %s is not a term", id.Name)
			}
			args = append(args, t)
		}
		return App(id.Name, sig[len(sig)-1], args...)
	}
	return e.fail("unknown spec function %s", id.Name)
}

func (ex *Exec) lookupGlobal(pkgName, name string) *ssa.Global {
	for _, p := range ex.Prog.AllPackages() {
		if p.Pkg.Name() == pkgName {
			if g, ok := p.Members[name].(*ssa.Global); ok {
				return g
			}
		}
	}
	return nil
}

// lvalueExpr evaluates an assignable location (*p, p.f, *p.f, x.f where x is a pointer) to a pointer value.
func (e *Env) lvalueExpr(x interface{}) *PtrV {
	switch n := x.(type) {
	case *ast.ParenExpr:
		return e.lvalueExpr(n.X)
	case *ast.StarExpr:
		v := e.eval(n.X)
		if p, ok := v.(*PtrV); ok {
			return p
		}
		e.fail("assigns: *%s is not a pointer", exprString(n.X))
		return nil
	case *ast.SelectorExpr:
		var base *PtrV
		if p := e.lvalueExprQuiet(n.X); p != nil {
			base = p
		} else if v, ok := e.eval(n.X).(*PtrV); ok {
			base = v
		}
		if base == nil || base.Obj == nil {
			e.fail("assigns: cannot locate %s", exprString(n))
			return nil
		}
		t := typeAtPath(base.Obj.Typ, base.Path)
		// auto-deref pointer-typed locations
		if pt, ok := t.Underlying().(*types.Pointer); ok {
			if inner, ok := e.loadPtr(base).(*PtrV); ok {
				base = inner
				t = pt.Elem()
			}
		}
		st, ok := t.Underlying().(*types.Struct)
		if !ok {
			e.fail("assigns: %s is not a struct", exprString(n.X))
			return nil
		}
		for i := 0; i < st.NumFields(); i++ {
			if st.Field(i).Name() == n.Sel.Name {
				return &PtrV{Nil: TFalse, Obj: base.Obj, Path: append(append([]PathEl(nil), base.Path...), PathEl{Field: i})}
			}
		}
		if i := baselineFieldIndex(st, n.Sel.Name); i >= 0 {
			return &PtrV{Nil: TFalse, Obj: base.Obj, Path: append(append([]PathEl(nil), base.Path...), PathEl{Field: i})}
		}
		e.fail("assigns: no field %s", n.Sel.Name)
		return nil
	case *ast.Ident:
		if v, ok := e.names["&"+n.Name]; ok {
			if p, ok := v.(*PtrV); ok {
				return p
			}
		}
		return nil
	}
	return nil
}

func (e *Env) lvalueExprQuiet(x ast.Expr) *PtrV {
	switch n := x.(type) {
	case *ast.StarExpr, *ast.SelectorExpr, *ast.ParenExpr:
		saved := e.errs
		var tmp []string
		e.errs = &tmp
		p := e.lvalueExpr(n)
		e.errs = saved
		return p
	}
	return nil
}

// evalBytesArg evaluates an argument and, for byte slices, yields their content (respecting old()).
func (e *Env) evalBytesArg(a ast.Expr) Value {
	v := e.eval(a)
	if s, ok := v.(*SliceV); ok && isByte(s.Elem) {
		if s.Obj == nil {
			return e.ex.G.StrConst("")
		}
		back, ok := e.ex.readPath(e.st, e.derefObj(s.Obj), s.Path, s.Obj.Typ).(*Term)
		if ok && back.Sort == SB {
			return e.ex.G.BSub(back, s.Off, s.Len)
		}
	}
	return v
}

var eventArgName = regexp.MustCompile(`^[ab]r?[0-9]+$`)

// eventRooted: the expression is a chain of selectors / indices / derefs over an event argument or result (a0, ar1, b2 ...).
func eventRooted(x ast.Expr) bool {
	for {
		switch n := x.(type) {
		case *ast.SelectorExpr:
			x = n.X
		case *ast.IndexExpr:
			x = n.X
		case *ast.StarExpr:
			x = n.X
		case *ast.ParenExpr:
			x = n.X
		case *ast.Ident:
			return eventArgName.MatchString(n.Name)
		default:
			return false
		}
	}
}
