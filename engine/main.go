package main

import (
	"encoding/json"
	"flag"
	"fmt"
	"os"
	"os/exec"
	"path/filepath"
	"regexp"
	"runtime/pprof"
	"sort"
	"strconv"
	"strings"
	"time"

	"golang.org/x/tools/go/packages"
	"golang.org/x/tools/go/ssa"
	"golang.org/x/tools/go/ssa/ssautil"
)

type PropCfg struct {
	ID           string        `json:"id"`
	Packages     []string      `json:"packages"`
	Sweep        []string      `json:"sweep"`     // functions checked for implicit safety obligations (entry points)
	Functions    []string      `json:"functions"` // extra functions verified against their contracts for this property
	Assume       []string      `json:"assumptions"`
	Text         string        `json:"text"`
	Inline       []string      `json:"inline"`  // callees inlined despite having a contract
	Modular      []string      `json:"modular"` // callees replaced by 'havoc everything reachable + contract' (cuts path explosion)
	MaxPaths     int           `json:"max_paths"`
	Bounded      []string      `json:"bounded"`
	BoundedTests []BoundedTest `json:"bounded_tests"`
}

// BoundedTest is a stand-in for a function outside the verifier's reach: an in-package Go test (injected with
// go test -overlay) that runs the real code over a stated finite domain. Labelled bounded, never counted as proved.
type BoundedTest struct {
	Pkg  string `json:"pkg"`
	File string `json:"file"`
	Run  string `json:"run"`
	What string `json:"what"`
}

type KnownFinding struct {
	Property   string `json:"property"`
	Obligation string `json:"obligation"`
	What       string `json:"what"`
	Status     string `json:"status"`
	Replay     string `json:"replay,omitempty"`
}

var verifRoot = "/verif"

var (
	currentTier = "quick"
	currentSeed int
)

// reliesOnContracts: callee contracts applied at call sites in this run and where each of them is verified.
var reliesOnContracts map[string]string

// scratchRoot holds work/ and replays/; it is verifRoot unless --workdir moves it (selftest runs several checks of one
// property side by side on different trees).
var scratchRoot = ""

func main() {
	if len(os.Args) < 2 {
		fmt.Println("usage: gocv check <prop> [--tier quick|thorough] | gocv baseline | gocv list")
		os.Exit(2)
	}
	if v := os.Getenv("VERIF_ROOT"); v != "" {
		verifRoot = v
	}
	switch os.Args[1] {
	case "check":
		if pf := os.Getenv("GOCV_PROF"); pf != "" {
			f, _ := os.Create(pf)
			pprof.StartCPUProfile(f)
			go func() {
				time.Sleep(30 * time.Second)
				pprof.StopCPUProfile()
				f.Close()
				os.Exit(9)
			}()
		}
		os.Exit(cmdCheck(os.Args[2:]))
	case "dump":
		cmdDump(os.Args[2:])
	default:
		fmt.Println("unknown command")
		os.Exit(2)
	}
}

func loadProps() map[string]*PropCfg {
	b, err := os.ReadFile(filepath.Join(verifRoot, "props.json"))
	if err != nil {
		fmt.Fprintln(os.Stderr, "cannot read props.json:", err)
		os.Exit(2)
	}
	var list []*PropCfg
	if err := json.Unmarshal(b, &list); err != nil {
		fmt.Fprintln(os.Stderr, "props.json:", err)
		os.Exit(2)
	}
	m := map[string]*PropCfg{}
	for _, p := range list {
		m[p.ID] = p
	}
	return m
}

type Loaded struct {
	Prog  *ssa.Program
	Pkgs  []*packages.Package
	Specs *SpecDB
	Fns   map[string]*ssa.Function
	Secs  float64
}

func loadRepo(repo string, pkgPaths []string) (*Loaded, error) {
	t0 := time.Now()
	cfg := &packages.Config{
		Mode:       packages.LoadAllSyntax,
		Dir:        repo,
		BuildFlags: []string{"-tags", "verif", "-mod=mod"},
		Env:        append(os.Environ(), "GOFLAGS=-mod=mod", "GOPROXY=off", "GOSUMDB=off", "GOTOOLCHAIN=local"),
	}
	var pats []string
	for _, p := range pkgPaths {
		pats = append(pats, "./"+p)
	}
	pkgs, err := packages.Load(cfg, pats...)
	if err != nil {
		return nil, err
	}
	bad := false
	for _, p := range pkgs {
		for _, e := range p.Errors {
			fmt.Fprintln(os.Stderr, "load error:", e)
			bad = true
		}
	}
	if bad {
		return nil, fmt.Errorf("repository does not type-check")
	}
	prog, spkgs := ssautil.AllPackages(pkgs, ssa.GlobalDebug)
	prog.Build()
	_ = spkgs
	ld := &Loaded{Prog: prog, Pkgs: pkgs, Specs: NewSpecDB(), Fns: map[string]*ssa.Function{}}
	for f := range ssautil.AllFunctions(prog) {
		ld.Fns[f.String()] = f
	}
	// contract files of every loaded in-repo package (including dependencies)
	seen := map[string]bool{}
	var visit func(p *packages.Package)
	visit = func(p *packages.Package) {
		if seen[p.PkgPath] {
			return
		}
		seen[p.PkgPath] = true
		if strings.HasPrefix(p.PkgPath, modulePrefix) && len(p.GoFiles) > 0 {
			dir := filepath.Dir(p.GoFiles[0])
			ld.Specs.LoadSpecFile(filepath.Join(dir, "zz_contracts_verif.go"), p.PkgPath)
		}
		for _, ip := range p.Imports {
			visit(ip)
		}
	}
	for _, p := range pkgs {
		visit(p)
	}
	ld.Secs = time.Since(t0).Seconds()
	return ld, nil
}

func hasProp(props []string, id string) bool {
	for _, p := range props {
		if p == id {
			return true
		}
	}
	return false
}

func contractServes(ct *Contract, id string) bool {
	if hasProp(ct.Props, id) {
		return true
	}
	for _, c := range ct.Requires {
		if hasProp(c.Props, id) {
			return true
		}
	}
	for _, c := range ct.Ensures {
		if hasProp(c.Props, id) {
			return true
		}
	}
	for _, c := range ct.Invs {
		if hasProp(c.Props, id) {
			return true
		}
	}
	for _, c := range ct.Temporal {
		if hasProp(c.Props, id) {
			return true
		}
	}
	return false
}

type nameGroup struct {
	Name      string
	Kind      string
	Instances int
	Folded    int
	Result    string // discharged | failed | undecided
	Solver    map[string]int
	Secs      float64
	Fail      *Obligation
	Props     []string
}

func cmdCheck(argv []string) int {
	fs := flag.NewFlagSet("check", flag.ExitOnError)
	tier := fs.String("tier", "quick", "quick|thorough")
	repo := fs.String("repo", "/repo/src", "path of the Go module to verify")
	verbose := fs.Bool("v", false, "verbose")
	noEvidence := fs.Bool("no-evidence", false, "do not write the evidence file")
	workdir := fs.String("workdir", "", "directory for work/ and replays/ (default: the verif root)")
	allObls := fs.Bool("all", false, "keep every obligation of the verified functions, whatever property it is tagged with (debug aid)")
	if len(argv) < 1 {
		fmt.Println("usage: gocv check <prop>")
		return 2
	}
	id := argv[0]
	fs.Parse(argv[1:])
	scratchRoot = verifRoot
	if *workdir != "" {
		scratchRoot = *workdir
	}
	if t := os.Getenv("VERIF_TIER"); t == "thorough" || t == "quick" {
		// explicit flag wins; env only used when the flag was not given
		given := false
		fs.Visit(func(f *flag.Flag) {
			if f.Name == "tier" {
				given = true
			}
		})
		if !given {
			*tier = t
		}
	}
	seed := 0
	if s := os.Getenv("VERIF_SEED"); s != "" {
		seed, _ = strconv.Atoi(s)
	}
	currentTier, currentSeed = *tier, seed
	t0 := time.Now()
	props := loadProps()
	pc := props[id]
	if pc == nil {
		fmt.Printf("property %s is not claimed (see MANIFEST.json not_applicable)\n", id)
		return 2
	}
	ld, err := loadRepo(*repo, pc.Packages)
	if err != nil {
		fmt.Fprintln(os.Stderr, "cannot load repository:", err)
		return 1 // no VIOLATION line: a tree that does not compile is outside the checks' contract
	}
	// closures that moved to another ordinal since the contracts were written: re-attach their contracts
	buildClosureAliases(ld.Fns)
	buildFunctionAliases(ld.Fns, ld.Specs.Contracts)
	{
		type move struct {
			from, to string
			ct       *Contract
		}
		var moves []move
		for full, ct := range ld.Specs.Contracts {
			key, mode := full, ""
			if i := strings.Index(full, "@"); i >= 0 {
				key, mode = full[:i], full[i:]
			}
			short := strings.ReplaceAll(key, modulePrefix+"/", "")
			cur, ok := baselineToClosure[short]
			if !ok {
				if i := strings.Index(short, "$"); i > 0 {
					if p, okp := baselineToClosure[short[:i]]; okp {
						cur, ok = p+short[i:], true
					}
				}
			}
			if ok {
				if nf := qualifyAny(cur) + mode; nf != full {
					moves = append(moves, move{full, nf, ct})
				}
			}
		}
		// two phases: a contract must be moved once, from the name it was written under (never from a name it was
		// just moved to)
		for _, mv := range moves {
			delete(ld.Specs.Contracts, mv.from)
		}
		for _, mv := range moves {
			mv.ct.Full = mv.to
			ld.Specs.Contracts[mv.to] = mv.ct
		}
	}
	{
		var all []*Contract
		for _, ct := range ld.Specs.Contracts {
			all = append(all, ct)
		}
		ld.Specs.Errors = append(ld.Specs.Errors, validatePatterns(all, ld.Fns)...)
	}
	if len(ld.Specs.Errors) > 0 {
		sort.Strings(ld.Specs.Errors)
		for _, e := range ld.Specs.Errors {
			fmt.Fprintln(os.Stderr, "contract error:", e)
		}
		return 3
	}
	cfg := Config{Verbose: *verbose, MaxPaths: pc.MaxPaths}
	if len(pc.Inline) > 0 {
		cfg.NoContracts = map[string]bool{}
		for _, n := range pc.Inline {
			cfg.NoContracts[qualifyAny(n)] = true
		}
	}
	if len(pc.Modular) > 0 {
		cfg.ForceModular = map[string]bool{}
		for _, n := range pc.Modular {
			cfg.ForceModular[qualifyAny(n)] = true
		}
	}
	ex := NewExec(ld.Prog, ld.Specs, cfg)

	// targets
	var targets []string
	for full, ct := range ld.Specs.Contracts {
		if contractServes(ct, id) {
			targets = append(targets, full)
		}
	}
	for _, f := range pc.Functions {
		targets = append(targets, qualifyAny(f))
	}
	sort.Strings(targets)
	var missing []string
	var underContract []string
	trustedContracts := []string{}
	runOne := func(full string, ct *Contract, safety bool) {
		fnName := full
		if i := strings.Index(fnName, "@"); i >= 0 && ct != nil && ct.Mode != "" {
			fnName = fnName[:i]
		}
		fn := ld.Fns[fnName]
		ex.Cfg.Interference = ct != nil && ct.Mode == "interference"
		if fn == nil {
			missing = append(missing, full)
			return
		}
		ex.Cfg.Safety = safety
		ex.Cfg.SafetyProps = []string{id}
		saveNC := ex.Cfg.NoContracts
		// the function under verification is executed, not replaced by its own contract
		nc := map[string]bool{full: true, fnName: true}
		for k, v := range saveNC {
			nc[k] = v
		}
		ex.Cfg.NoContracts = nc
		ex.paths = 0
		n0 := len(ex.Obls)
		t1 := time.Now()
		ex.VerifyFunction(fn, ct)
		if *verbose {
			fmt.Printf("  explored %-60s paths=%d obligations+=%d %.1fs\n", ex.fnName(fn), ex.paths, len(ex.Obls)-n0, time.Since(t1).Seconds())
		}
		ex.Cfg.NoContracts = saveNC
	}
	done := map[string]bool{}
	for _, full := range targets {
		if done[full] {
			continue
		}
		done[full] = true
		ct := ld.Specs.Contracts[full]
		if ct != nil && ct.Trusted {
			trustedContracts = append(trustedContracts, ex.fnName(ld.Fns[full]))
			continue
		}
		underContract = append(underContract, strings.ReplaceAll(full, modulePrefix+"/", ""))
		runOne(full, ct, false)
	}
	// Every contract that was APPLIED at a call site must itself be verified somewhere or be listed as trusted:
	// a contract that serves no claimed property would otherwise be a silent assumption. Such orphans are verified
	// here and their obligations count for this property.
	claimed := map[string]bool{}
	for k := range props {
		claimed[k] = true
	}
	reliesOn := map[string]string{}
	for changed := true; changed; {
		changed = false
		var used []string
		for full := range ex.UsedContracts {
			used = append(used, full)
		}
		sort.Strings(used)
		for _, full := range used {
			ct := ex.UsedContracts[full]
			short := strings.ReplaceAll(full, modulePrefix+"/", "")
			if done[full] {
				if _, ok := reliesOn[short]; !ok && !ct.Trusted {
					reliesOn[short] = "verified in this run"
				}
				continue
			}
			if ct.Trusted {
				done[full] = true
				reliesOn[short] = "TRUSTED (assumed, not verified)"
				trustedContracts = append(trustedContracts, short)
				continue
			}
			var under []string
			for p := range claimed {
				if contractServes(ct, p) {
					under = append(under, p)
				}
			}
			sort.Strings(under)
			if len(under) > 0 {
				done[full] = true
				reliesOn[short] = "verified by the check of " + strings.Join(under, ", ")
				continue
			}
			done[full] = true
			reliesOn[short] = "orphan contract: verified in this run"
			underContract = append(underContract, short+" (relied upon, no property of its own)")
			n0 := len(ex.Obls)
			runOne(full, ct, false)
			for _, ob := range ex.Obls[n0:] {
				if !hasProp(ob.Props, id) {
					ob.Props = append(append([]string(nil), ob.Props...), id)
				}
			}
			changed = true
		}
	}
	reliesOnContracts = reliesOn
	for _, lm := range ld.Specs.Lemmas {
		if hasProp(lm.Props, id) {
			ex.CheckLemma(lm)
			underContract = append(underContract, "lemma "+lm.Label+" ("+lm.Line+")")
		}
	}
	for _, s := range pc.Sweep {
		full := qualifyAny(s)
		underContract = append(underContract, strings.ReplaceAll(full, modulePrefix+"/", "")+" (safety sweep)")
		runOne(full, ld.Specs.Contracts[full], true)
	}
	if len(ld.Specs.Errors) > 0 {
		for _, e := range dedupe(ld.Specs.Errors) {
			fmt.Fprintln(os.Stderr, "contract error:", e)
		}
		return 3
	}

	// keep obligations that serve this property
	var obls []*Obligation
	for _, ob := range ex.Obls {
		if hasProp(ob.Props, id) || *allObls {
			obls = append(obls, ob)
		}
	}
	scfg := &SolverCfg{Timeout: 10 * time.Second, WorkDir: filepath.Join(scratchRoot, "work", "q", id), Parallel: 16}
	if *tier == "thorough" {
		scfg.Timeout = 120 * time.Second
		scfg.Cross = true
	}
	os.RemoveAll(scfg.WorkDir)
	ts := time.Now()
	ex.Discharge(scfg, obls)
	solveWall := time.Since(ts).Seconds()
	// call-site preconditions of contracts applied in this run that belong to other properties only: they are not
	// part of this property's claim, but the postconditions used here rest on them; the ones that are not proved
	// here are reported as unchecked assumptions of this run
	var foreignPre []*Obligation
	for _, ob := range ex.Obls {
		if ob.Kind == "pre" && !hasProp(ob.Props, id) && !*allObls {
			foreignPre = append(foreignPre, ob)
		}
	}
	unprovedPre = map[string]string{}
	if len(foreignPre) > 0 {
		fcfg := &SolverCfg{Timeout: 5 * time.Second, WorkDir: filepath.Join(scratchRoot, "work", "q", id+"-pre"), Parallel: 16}
		os.RemoveAll(fcfg.WorkDir)
		ex.Discharge(fcfg, foreignPre)
		os.RemoveAll(fcfg.WorkDir)
		for _, ob := range foreignPre {
			if ob.Result != "unsat" && ob.Result != "folded" {
				unprovedPre[ob.Name] = strings.Join(ob.Props, ",")
			}
		}
	}

	// group by name
	groups := map[string]*nameGroup{}
	var names []string
	for _, ob := range obls {
		g := groups[ob.Name]
		if g == nil {
			g = &nameGroup{Name: ob.Name, Kind: ob.Kind, Solver: map[string]int{}, Result: "discharged", Props: ob.Props}
			groups[ob.Name] = g
			names = append(names, ob.Name)
		}
		g.Instances++
		g.Secs += ob.Secs
		switch ob.Result {
		case "folded":
			g.Folded++
			g.Solver["simplifier"]++
		case "unsat":
			g.Solver[ob.Solver]++
		case "sat":
			if g.Result != "failed" {
				g.Result = "failed"
				g.Fail = ob
			}
		default:
			if g.Result == "discharged" {
				g.Result = "undecided"
				g.Fail = ob
			}
		}
	}
	sort.Strings(names)
	// "a return is reachable" is met by ONE satisfiable returning path
	for _, g := range groups {
		if !strings.HasSuffix(g.Name, "/cover/a-return-is-reachable") || g.Result == "discharged" {
			continue
		}
		for _, ob := range obls {
			if ob.Name == g.Name && ob.Result == "unsat" {
				g.Result, g.Fail = "discharged", nil
				break
			}
		}
	}

	replayExec = ex
	replayFns = ld.Fns
	known := loadKnown()
	baseline := loadBaseline()[id]
	inBaseline := map[string]bool{}
	for _, n := range baseline {
		inBaseline[n] = true
	}

	violations := 0
	var knownSeen, undecided, failedNames []string
	backend := map[string]int{}
	discharged := 0
	solverSecs := 0.0
	for _, n := range names {
		g := groups[n]
		solverSecs += g.Secs
		for k, v := range g.Solver {
			backend[k] += v
		}
		switch g.Result {
		case "discharged":
			discharged++
		case "failed":
			if kf := matchKnown(known, id, n); kf != nil && !strings.HasPrefix(kf.Status, "fixed") {
				fmt.Printf("KNOWN-FINDING: property=%s %s — %s\n", id, n, kf.What)
				knownSeen = append(knownSeen, n)
				continue
			}
			violations++
			failedNames = append(failedNames, n)
			path := writeReplay(id, g, ex, "")
			suffix := replayOnCode(id, g, path)
			fmt.Printf("VIOLATION property=%s replay=%s%s\n", id, path, suffix)
		case "undecided":
			if kf := matchKnown(known, id, n); kf != nil && !strings.HasPrefix(kf.Status, "fixed") {
				fmt.Printf("KNOWN-FINDING: property=%s %s — %s\n", id, n, kf.What)
				knownSeen = append(knownSeen, n)
				continue
			}
			if inBaseline[n] {
				violations++
				failedNames = append(failedNames, n)
				path := writeReplay(id, g, ex, "obligation was discharged on the unchanged tree and is now undecided")
				fmt.Printf("VIOLATION property=%s replay=%s no-failing-input-found\n", id, path)
			} else {
				undecided = append(undecided, n)
			}
		}
	}
	// baseline names that vanished
	var vanished []string
	for _, n := range baseline {
		if groups[n] == nil {
			vanished = append(vanished, n)
		}
	}
	wall := time.Since(t0).Seconds()

	var boundedEv []map[string]interface{}
	for _, bt := range pc.BoundedTests {
		res := runBounded(*repo, bt, id)
		boundedEv = append(boundedEv, res)
		if bad, _ := res["violated"].(bool); bad {
			violations++
			path := filepath.Join(scratchRoot, "replays", id, "bounded_"+sanitize(bt.Run)+".json")
			os.MkdirAll(filepath.Dir(path), 0o755)
			b, _ := json.MarshalIndent(res, "", " ")
			os.WriteFile(path, b, 0o644)
			failedNames = append(failedNames, "bounded:"+bt.Run)
			fmt.Printf("VIOLATION property=%s replay=%s\n", id, path)
		}
	}
	boundedResults = boundedEv
	if traceCalls {
		type kv struct {
			k string
			v int
		}
		var l []kv
		for k, v := range callCount {
			l = append(l, kv{k, v})
		}
		sort.Slice(l, func(i, j int) bool { return l[i].k < l[j].k })
		for _, e := range l {
			fmt.Fprintf(os.Stderr, "calls %6d %s\n", e.v, strings.ReplaceAll(e.k, modulePrefix+"/", ""))
		}
	}
	if ex.pathCap {
		fmt.Printf("note: path cap reached; some paths unexplored\n")
	}
	fmt.Printf("property %s tier=%s: %d obligations (%d instances), %d discharged, %d known findings, %d undecided, %d violations; load %.1fs solve %.1fs wall %.1fs\n",
		id, *tier, len(names), len(obls), discharged, len(knownSeen), len(undecided), violations, ld.Secs, solveWall, wall)
	if *verbose {
		for _, n := range names {
			g := groups[n]
			fmt.Printf("  %-10s %s (%d inst, %v)\n", g.Result, n, g.Instances, g.Solver)
			if g.Fail != nil && g.Result != "discharged" {
				fmt.Printf("      model: %v\n      raw: %s\n      smt: %s\n", trimModel(g.Fail.Model), firstLines(g.Fail.Raw, 2), g.Fail.SMT)
			}
		}
		for k, v := range ex.Unsupported {
			fmt.Printf("  unsupported: %s x%d\n", k, v)
		}
		for k, v := range ex.Notes {
			fmt.Printf("  note: %s x%d\n", k, v)
		}
	}

	if !*noEvidence {
		writeEvidence(id, *tier, seed, pc, ld, ex, names, groups, discharged, knownSeen, undecided, failedNames, vanished, missing, underContract, trustedContracts, backend, solverSecs, wall, violations)
	}
	if os.Getenv("GOCV_WRITE_BASELINE") != "" {
		var ok []string
		for _, n := range names {
			if groups[n].Result == "discharged" {
				ok = append(ok, n)
			}
		}
		updateBaseline(id, ok)
		updateSignatureBaseline(ld)
		updateStructBaseline(ld)
	}
	if violations > 0 {
		return 1
	}
	return 0
}

func dedupe(s []string) []string {
	seen := map[string]bool{}
	var out []string
	for _, x := range s {
		if !seen[x] {
			seen[x] = true
			out = append(out, x)
		}
	}
	return out
}

func trimModel(m map[string]string) map[string]string {
	if len(m) <= 40 {
		return m
	}
	out := map[string]string{}
	i := 0
	var keys []string
	for k := range m {
		keys = append(keys, k)
	}
	sort.Strings(keys)
	for _, k := range keys {
		out[k] = m[k]
		i++
		if i >= 40 {
			break
		}
	}
	return out
}

// qualifyAny expands "pkg.Func" / "(*pkg.T).M" written relative to the module.
func qualifyAny(s string) string {
	if strings.Contains(s, modulePrefix) {
		return s
	}
	if strings.HasPrefix(s, "(*") {
		return "(*" + modulePrefix + "/" + s[2:]
	}
	if strings.HasPrefix(s, "(") {
		return "(" + modulePrefix + "/" + s[1:]
	}
	return modulePrefix + "/" + s
}

func loadKnown() []*KnownFinding {
	b, err := os.ReadFile(filepath.Join(verifRoot, "known_findings.json"))
	if err != nil {
		return nil
	}
	var k []*KnownFinding
	if err := json.Unmarshal(b, &k); err != nil {
		fmt.Fprintln(os.Stderr, "known_findings.json:", err)
	}
	return k
}

func matchKnown(k []*KnownFinding, prop, name string) *KnownFinding {
	for _, f := range k {
		if f.Property == prop && f.Obligation == name {
			return f
		}
	}
	return nil
}

func loadBaseline() map[string][]string {
	m := map[string][]string{}
	b, err := os.ReadFile(filepath.Join(verifRoot, "obligations.baseline.json"))
	if err == nil {
		json.Unmarshal(b, &m)
	}
	return m
}

func updateBaseline(id string, names []string) {
	m := loadBaseline()
	m[id] = names
	b, _ := json.MarshalIndent(m, "", " ")
	os.WriteFile(filepath.Join(verifRoot, "obligations.baseline.json"), b, 0o644)
}

func writeReplay(id string, g *nameGroup, ex *Exec, why string) string {
	dir := filepath.Join(scratchRoot, "replays", id)
	os.MkdirAll(dir, 0o755)
	path := filepath.Join(dir, sanitize(g.Name)+".json")
	rec := map[string]interface{}{
		"property":   id,
		"obligation": g.Name,
		"kind":       g.Kind,
		"why":        why,
	}
	if g.Fail != nil {
		rec["solver"] = g.Fail.Solver
		rec["solver_answer"] = g.Fail.Result
		rec["solver_output"] = firstLines(g.Fail.Raw, 60)
		rec["model"] = g.Fail.Model
		rec["position"] = g.Fail.Pos.String()
		rec["function"] = g.Fail.Fn
		rec["goal"] = g.Fail.Goal.String()
		if g.Fail.SMT != "" {
			if b, err := os.ReadFile(g.Fail.SMT); err == nil && len(b) < 400000 {
				rec["smt2"] = string(b)
			}
		}
		rec["note"] = g.Fail.Note
	}
	b, _ := json.MarshalIndent(rec, "", " ")
	os.WriteFile(path, b, 0o644)
	return path
}

// call-site preconditions of applied contracts that belong to other properties and were not proved in this run
var unprovedPre = map[string]string{}

func writeEvidence(id, tier string, seed int, pc *PropCfg, ld *Loaded, ex *Exec, names []string, groups map[string]*nameGroup,
	discharged int, knownSeen, undecided, failed, vanished, missing, underContract, trustedContracts []string, backend map[string]int, solverSecs, wall float64, violations int) {
	var samples []interface{}
	for i, n := range names {
		if i%max(1, len(names)/8) != 0 && groups[n].Result == "discharged" {
			continue
		}
		g := groups[n]
		s := map[string]interface{}{"obligation": n, "kind": g.Kind, "instances": g.Instances, "answer": g.Result, "backends": g.Solver, "solver_seconds": round3(g.Secs)}
		samples = append(samples, s)
		if len(samples) >= 14 {
			break
		}
	}
	if samples == nil {
		samples = []interface{}{}
	}
	trusted := []string{
		"go/ssa (x/tools v0.29.0) SSA of /repo/src's working tree is what the gc compiler compiles; gocv's SSA interpreter implements the Go spec for the instruction kinds it accepts (A1)",
		"machine integers are exact 64-bit (wrapped Int encoding), no idealisation (A13)",
		"SMT solvers z3 4.8.12 / z3 5.1.0 / cvc5 1.0.3 are sound when they answer unsat",
	}
	trusted = append(trusted, pc.Assume...)
	var used []string
	for k := range ModelsUsed {
		used = append(used, k)
	}
	sort.Strings(used)
	trusted = append(trusted, used...)
	for k := range AssumedClauses {
		trusted = append(trusted, k)
	}
	var cbs []string
	for k := range CallbackAssumptions {
		cbs = append(cbs, k)
	}
	sort.Strings(cbs)
	trusted = append(trusted, cbs...)
	var ups []string
	for k, v := range unprovedPre {
		ups = append(ups, fmt.Sprintf("precondition of an applied contract not proved at this call site (%s; it is an obligation of %s, where it is not claimed either unless listed there): the callee's postcondition is used under this assumption", k, v))
	}
	sort.Strings(ups)
	trusted = append(trusted, ups...)
	for _, t := range trustedContracts {
		trusted = append(trusted, "assumed (unverified) contract: "+t)
	}
	var unsup []string
	for k, v := range ex.Unsupported {
		unsup = append(unsup, fmt.Sprintf("%s x%d", k, v))
	}
	sort.Strings(unsup)
	sort.Strings(underContract)
	cov := map[string]interface{}{
		// obligations claimed as proved by this run: obligations that fail as listed known findings or are
		// undecided (never part of the claim) are reported separately below and in obligations_total
		"obligations":               len(names) - len(knownSeen) - len(undecided),
		"obligations_total":         len(names),
		"discharged":                discharged,
		"checker_cmd":               fmt.Sprintf("/verif/bin/gocv check %s --tier %s", id, tier),
		"trusted_base":              trusted,
		"samples":                   samples,
		"obligation_instances":      countInstances(groups),
		"functions_under_contract":  underContract,
		"by_backend":                backend,
		"solver_seconds":            round3(solverSecs),
		"undecided":                 undecided,
		"obligations_failing_known": knownSeen,
		"failed":                    failed,
		"missing_targets":           append(missing, sortedKeys(MissingLoopTargets)...),
		"vanished_vs_baseline":      vanished,
		"paths_explored":            ex.stateN + 1,
		"path_cap_hit":              ex.pathCap,
		"unsupported_constructs":    unsup,
		"untriggered_clauses":       untriggered(ld, ex, id),
		"relies_on_contracts":       reliesOnContracts,
		"retried_after_timeout":     Retried,
		"bounded":                   boundedResults,
		"dropped_by_translation":    []string{"goroutines (go statements are events; no interleaving)", "channel contents (receives yield arbitrary values)", "termination (partial correctness only)", "map iteration order, time, randomness (nondeterministic values)", "append aliasing for element types other than bytes (append to a non-byte slice always allocates a fresh backing array; byte slices with spare capacity are written in place)"},
		"contract_files":            relFiles(ld.Specs.Files),
		"explanation":               pc.Text,
	}
	ev := map[string]interface{}{
		"property_id": id,
		"tier":        tier,
		"seed":        seed,
		"level":       "proof",
		"coverage":    cov,
		"assumptions": trusted,
		"wall_s":      round3(wall),
		"violations":  violations,
	}
	os.MkdirAll(filepath.Join(verifRoot, "evidence"), 0o755)
	b, _ := json.MarshalIndent(ev, "", " ")
	os.WriteFile(filepath.Join(verifRoot, "evidence", id+".json"), b, 0o644)
}

var boundedResults []map[string]interface{}

var boundedRe = regexp.MustCompile(`BOUNDED name=(\S+) cases=(\d+) mismatches=(\d+) first="(.*)"`)

func runBounded(repo string, bt BoundedTest, id string) map[string]interface{} {
	res := map[string]interface{}{"test": bt.Run, "package": bt.Pkg, "source": bt.File, "what": bt.What, "label": "bounded (not counted as discharged)"}
	work := filepath.Join(scratchRoot, "work", "bounded", id)
	os.MkdirAll(work, 0o755)
	src := filepath.Join(verifRoot, bt.File)
	ov := map[string]map[string]string{"Replace": {filepath.Join(repo, bt.Pkg, "zz_gocv_bounded_test.go"): src}}
	b, _ := json.Marshal(ov)
	ovFile := filepath.Join(work, sanitize(bt.Run)+"_overlay.json")
	os.WriteFile(ovFile, b, 0o644)
	cmd := exec.Command("go", "test", "-v", "-overlay", ovFile, "-vet=off", "-count=1", "-timeout", "300s", "-run", bt.Run, "./"+bt.Pkg+"/")
	cmd.Dir = repo
	cmd.Env = append(os.Environ(), "GOFLAGS=-mod=mod", "GOPROXY=off", "GOSUMDB=off", "GOTOOLCHAIN=local", "VERIF_TIER="+currentTier, fmt.Sprintf("VERIF_SEED=%d", currentSeed))
	t0 := time.Now()
	out, err := cmd.CombinedOutput()
	res["wall_s"] = round3(time.Since(t0).Seconds())
	var runs []map[string]interface{}
	total, mism := 0, 0
	for _, m := range boundedRe.FindAllStringSubmatch(string(out), -1) {
		c, _ := strconv.Atoi(m[2])
		x, _ := strconv.Atoi(m[3])
		total += c
		mism += x
		runs = append(runs, map[string]interface{}{"name": m[1], "cases": c, "mismatches": x, "first_mismatch": m[4]})
	}
	res["runs"] = runs
	res["cases"] = total
	res["mismatches"] = mism
	if err != nil || len(runs) == 0 || mism > 0 {
		timedOut := strings.Contains(string(out), "test timed out")
		res["violated"] = mism > 0 || (!timedOut && ((err != nil && strings.Contains(string(out), "--- FAIL")) || strings.Contains(string(out), "panic:")))
		if timedOut {
			res["broken"] = "bounded test timed out (machine load?): undecided, not a violation"
		}
		res["output"] = firstLines(string(out), 40)
		if len(runs) == 0 && !res["violated"].(bool) {
			res["broken"] = "bounded test produced no result line (does not compile against this tree?)"
			fmt.Fprintf(os.Stderr, "bounded test %s produced no result: %s\n", bt.Run, firstLines(string(out), 6))
		}
	}
	return res
}

func relFiles(fs []string) []string {
	var out []string
	for _, f := range fs {
		out = append(out, f)
	}
	sort.Strings(out)
	return out
}

func countInstances(groups map[string]*nameGroup) int {
	n := 0
	for _, g := range groups {
		n += g.Instances
	}
	return n
}

func round3(f float64) float64 { return float64(int(f*1000+0.5)) / 1000 }

func cmdDump(argv []string) {
	// gocv dump <pkg> <func-substring>: print SSA of matching functions (debug aid)
	ld, err := loadRepo("/repo/src", []string{argv[0]})
	if err != nil {
		fmt.Println(err)
		return
	}
	for name, f := range ld.Fns {
		if strings.Contains(name, argv[1]) && len(f.Blocks) > 0 {
			f.WriteTo(os.Stdout)
		}
	}
}

// replayOnCode tries to reproduce a counterexample on the compiled code; returns the VIOLATION suffix.
func replayOnCode(id string, g *nameGroup, path string) string {
	return replayDispatch(id, g, path)
}

// untriggered lists the precede/respond clauses serving property id whose triggering event occurred on no explored
// path of their function (nothing was decided by them on this tree); `never` clauses are expected to stay untriggered.
func untriggered(ld *Loaded, ex *Exec, id string) []string {
	out := []string{}
	for _, ct := range ld.Specs.Contracts {
		if !contractServes(ct, id) {
			continue
		}
		for _, tc := range ct.Temporal {
			if tc.Kind == "never" || (len(tc.Props) > 0 && !hasProp(tc.Props, id)) {
				continue
			}
			if ex.TemporalHits[tc] == 0 {
				out = append(out, fmt.Sprintf("%s %s [%s] A: %s", ct.Key, tc.Kind, tc.Label, tc.A))
			}
		}
	}
	sort.Strings(out)
	return out
}

// Signature baseline: the parameter and result names the contracts were written against. A later rename of a
// parameter or named result (a harmless edit) must not make the contracts unreadable: paramNames binds the recorded
// name to the same position when the function still has as many parameters of it.
type sigNames struct {
	FP       *closureFP          `json:"fp,omitempty"`       // fingerprint of the function itself (rename tolerance)
	Loops    []loopFP            `json:"loops,omitempty"`    // fingerprints of the function's loops (ordinal-shift tolerance)
	Closures []closureFP         `json:"closures,omitempty"` // fingerprints of the function's closures (ordinal-shift tolerance)
	Params   []string            `json:"params"`
	Results  []string            `json:"results"`
	FreeVars []string            `json:"freevars,omitempty"` // captured variables of a closure, in binding order
	Allocs   []string            `json:"allocs,omitempty"`   // named address-taken locals, in program order
	Phis     map[string][]string `json:"phis,omitempty"`     // per loop ordinal: named loop-carried locals, in header order
}

// localNames lists the named locals a loop invariant can mention, in a position-stable order.
func localNames(fn *ssa.Function) ([]string, map[string][]string) {
	var allocs []string
	for _, b := range fn.Blocks {
		for _, ins := range b.Instrs {
			if a, ok := ins.(*ssa.Alloc); ok && a.Comment != "" {
				allocs = append(allocs, a.Comment)
			}
		}
	}
	phis := map[string][]string{}
	if len(fn.Blocks) > 0 {
		for _, lp := range computeLoops(fn).Loops {
			var l []string
			for _, ins := range lp.Header.Instrs {
				if phi, ok := ins.(*ssa.Phi); ok && phi.Comment != "" {
					l = append(l, phi.Comment)
				}
			}
			phis[fmt.Sprintf("%d", lp.Ordinal)] = l
		}
	}
	return allocs, phis
}

var sigBaseline map[string]sigNames

func loadSignatureBaseline() map[string]sigNames {
	if sigBaseline != nil {
		return sigBaseline
	}
	sigBaseline = map[string]sigNames{}
	if b, err := os.ReadFile(filepath.Join(verifRoot, "signatures.baseline.json")); err == nil {
		json.Unmarshal(b, &sigBaseline)
	}
	return sigBaseline
}

func updateSignatureBaseline(ld *Loaded) {
	m := loadSignatureBaseline()
	for full := range ld.Specs.Contracts {
		name := full
		if i := strings.Index(name, "@"); i >= 0 {
			name = name[:i]
		}
		fn := ld.Fns[name]
		if fn == nil {
			continue
		}
		var s sigNames
		for _, p := range fn.Params {
			s.Params = append(s.Params, p.Name())
		}
		r := fn.Signature.Results()
		for i := 0; i < r.Len(); i++ {
			s.Results = append(s.Results, r.At(i).Name())
		}
		s.Allocs, s.Phis = localNames(fn)
		s.Loops = loopFingerprints(fn)
		fp := fingerprint(fn)
		s.FP = &fp
		if !strings.Contains(name, "$") {
			for _, c := range allClosures(fn) {
				s.Closures = append(s.Closures, fingerprint(c))
			}
		}
		for _, fv := range fn.FreeVars {
			s.FreeVars = append(s.FreeVars, fv.Name())
		}
		m[strings.ReplaceAll(name, modulePrefix+"/", "")] = s
	}
	b, _ := json.MarshalIndent(m, "", " ")
	os.WriteFile(filepath.Join(verifRoot, "signatures.baseline.json"), b, 0o644)
}

func sortedKeys(m map[string]bool) []string {
	var out []string
	for k := range m {
		out = append(out, k)
	}
	sort.Strings(out)
	return out
}
