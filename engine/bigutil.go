package main

import "math/big"

type bigInt = big.Int

func negOf(b interface{ String() string }) *big.Int {
	v, _ := new(big.Int).SetString(b.String(), 10)
	return v.Neg(v)
}

var bigOne = big.NewInt(1)
