package main

import (
	"encoding/hex"
	"encoding/json"
	"fmt"
	"go/types"
	"math/big"
	"os"
	"os/exec"
	"path/filepath"
	"regexp"
	"sort"
	"strings"
	"time"

	"golang.org/x/tools/go/ssa"
)

// Replay of solver counterexamples on the compiled code.
//
// For an entry function whose parameters are "value-like" (integers, booleans, strings, byte slices and
// arrays, structs and pointers to structs of those, protobuf messages) the model is turned into Go
// literals, an in-package test is injected with `go test -overlay`, the real function is called under
// recover(), and results plus final pointees are dumped as JSON. A safety obligation is reproduced when the
// call panics; a postcondition is reproduced when the violated clause, re-evaluated by the spec evaluator on
// the concrete pre/post values, is false.

type replayCtx struct {
	ex      *Exec
	model   map[string]string
	imports map[string]string // path -> name
	pkg     *types.Package
	used    map[string]int
	unsup   string
	st      *State
}

var trailingNum = regexp.MustCompile(`_\d+$`)

func (rc *replayCtx) lookup(hint string) (string, bool) {
	h := sanitize(hint)
	var cands []string
	for k := range rc.model {
		if trailingNum.ReplaceAllString(k, "") == h {
			cands = append(cands, k)
		}
	}
	if len(cands) == 0 {
		return "", false
	}
	sort.Slice(cands, func(i, j int) bool { return numSuffix(cands[i]) < numSuffix(cands[j]) })
	i := rc.used[h]
	if i >= len(cands) {
		i = len(cands) - 1
	}
	rc.used[h]++
	return rc.model[cands[i]], true
}

func numSuffix(s string) int {
	m := trailingNum.FindString(s)
	n := 0
	fmt.Sscanf(m, "_%d", &n)
	return n
}

func (rc *replayCtx) qual(p *types.Package) string {
	if p == rc.pkg {
		return ""
	}
	if n, ok := rc.imports[p.Path()]; ok {
		return n
	}
	n := fmt.Sprintf("imp%d", len(rc.imports))
	rc.imports[p.Path()] = n
	return n
}

func (rc *replayCtx) typeStr(t types.Type) string {
	return types.TypeString(t, rc.qual)
}

func fillBytes(n int, seed string) []byte {
	b := make([]byte, n)
	h := 7
	for _, c := range seed {
		h = h*31 + int(c)
	}
	for i := range b {
		b[i] = byte('a' + (h+i)%26)
	}
	return b
}

// gen produces a Go expression and the corresponding symbolic-executor value for type t.
func (rc *replayCtx) gen(t types.Type, hint string, depth int) (string, Value) {
	if depth > 12 {
		rc.unsup = "input too deep"
		return "nil", nil
	}
	if _, ok := opaqueSort(t); ok {
		// external struct types (time.Time, mutexes, protobuf internals): zero value
		return rc.typeStr(t) + "{}", rc.ex.G.Zero(t)
	}
	switch u := t.Underlying().(type) {
	case *types.Basic:
		switch {
		case u.Info()&types.IsInteger != 0:
			v, ok := rc.lookup(hint)
			if !ok {
				v = "0"
			}
			bi, _ := new(big.Int).SetString(v, 10)
			if bi == nil {
				bi = big.NewInt(0)
			}
			return fmt.Sprintf("%s(%s)", rc.typeStr(t), bi.String()), IntB(bi)
		case u.Info()&types.IsBoolean != 0:
			v, _ := rc.lookup(hint)
			return fmt.Sprintf("%s(%v)", rc.typeStr(t), v == "true"), BoolC(v == "true")
		case u.Info()&types.IsString != 0:
			n := 0
			if v, ok := rc.lookup(hint + "_len"); ok {
				fmt.Sscanf(v, "%d", &n)
			}
			if n > 1<<20 {
				rc.unsup = "model asks for a huge string"
				n = 0
			}
			b := fillBytes(n, hint)
			return fmt.Sprintf("%s(%q)", rc.typeStr(t), string(b)), rc.ex.G.StrConst(string(b))
		}
	case *types.Array:
		if isByte(u.Elem()) {
			b := fillBytes(int(u.Len()), hint)
			if isByteArray(u) {
				return fmt.Sprintf("%s(mustArr%d(%q))", rc.typeStr(t), u.Len(), string(b)), rc.ex.G.StrConst(string(b))
			}
		}
		if u.Len() <= 64 {
			var parts []string
			a := &ArrV{Elem: u.Elem()}
			for i := 0; i < int(u.Len()); i++ {
				e, v := rc.gen(u.Elem(), fmt.Sprintf("%s_%d", hint, i), depth+1)
				parts = append(parts, e)
				a.E = append(a.E, v)
			}
			return fmt.Sprintf("%s{%s}", rc.typeStr(t), strings.Join(parts, ", ")), a
		}
	case *types.Struct:
		sv := &StructV{T: u}
		var parts []string
		for i := 0; i < u.NumFields(); i++ {
			f := u.Field(i)
			if !f.Exported() && f.Pkg() != rc.pkg {
				sv.F = append(sv.F, rc.ex.G.Zero(f.Type()))
				continue
			}
			if _, isIface := f.Type().Underlying().(*types.Interface); isIface {
				sv.F = append(sv.F, rc.ex.G.Zero(f.Type()))
				continue
			}
			e, v := rc.gen(f.Type(), hint+"_"+f.Name(), depth+1)
			sv.F = append(sv.F, v)
			parts = append(parts, f.Name()+": "+e)
		}
		return fmt.Sprintf("%s{%s}", rc.typeStr(t), strings.Join(parts, ", ")), sv
	case *types.Pointer:
		v, ok := rc.lookup(hint + "_isnil")
		if ok && v == "true" {
			return fmt.Sprintf("(%s)(nil)", rc.typeStr(t)), &PtrV{Nil: TTrue}
		}
		e, val := rc.gen(u.Elem(), hint+"_p", depth+1)
		obj := rc.ex.G.NewObject(u.Elem(), hint)
		obj.Sym = true
		rc.st.Heap[obj] = val
		rc.st.PreHeap[obj] = val
		if _, isStruct := u.Elem().Underlying().(*types.Struct); isStruct && strings.HasSuffix(e, "}") {
			return "&" + e, &PtrV{Nil: TFalse, Obj: obj}
		}
		return fmt.Sprintf("ptrTo(%s)", e), &PtrV{Nil: TFalse, Obj: obj}
	case *types.Slice:
		if isByte(u.Elem()) {
			if v, ok := rc.lookup(hint + "_isnil"); ok && v == "true" {
				return fmt.Sprintf("%s(nil)", rc.typeStr(t)), &SliceV{Nil: TTrue, Off: IntC(0), Len: IntC(0), Cap: IntC(0), Elem: u.Elem()}
			}
			n := 0
			if v, ok := rc.lookup(hint + "_content_len"); ok {
				fmt.Sscanf(v, "%d", &n)
			}
			if n > 1<<20 {
				rc.unsup = "model asks for a huge byte slice"
				n = 0
			}
			b := fillBytes(n, hint)
			obj := rc.ex.G.NewObject(t, hint)
			obj.Sym = true
			c := rc.ex.G.StrConst(string(b))
			rc.st.Heap[obj] = c
			rc.st.PreHeap[obj] = c
			return fmt.Sprintf("%s(%q)", rc.typeStr(t), string(b)), &SliceV{Nil: TFalse, Obj: obj, Off: IntC(0), Len: IntC(int64(n)), Cap: IntC(int64(n)), Elem: u.Elem()}
		}
		n := 0
		if v, ok := rc.lookup(hint + "_len"); ok {
			fmt.Sscanf(v, "%d", &n)
		}
		if n > 64 {
			n = 64
		}
		var parts []string
		a := &ArrV{Elem: u.Elem()}
		for i := 0; i < n; i++ {
			// elements of message slices are non-nil (A9)
			e, v := rc.gen(u.Elem(), hint+"_el", depth+1)
			parts = append(parts, e)
			a.E = append(a.E, v)
		}
		obj := rc.ex.G.NewObject(t, hint)
		obj.Sym = true
		rc.st.Heap[obj] = a
		rc.st.PreHeap[obj] = a
		return fmt.Sprintf("%s{%s}", rc.typeStr(t), strings.Join(parts, ", ")), &SliceV{Nil: BoolC(n == 0), Obj: obj, Off: IntC(0), Len: IntC(int64(n)), Cap: IntC(int64(n)), Elem: u.Elem()}
	}
	rc.unsup = "input type " + t.String() + " has no replay generator"
	return "nil", nil
}

const replayHelpers = `
func ptrTo[T any](v T) *T { return &v }
func mustArr32(s string) (a [32]byte) { copy(a[:], s); return }
func mustArr64(s string) (a [64]byte) { copy(a[:], s); return }
func mustArr12(s string) (a [12]byte) { copy(a[:], s); return }
func mustArr16(s string) (a [16]byte) { copy(a[:], s); return }

func gocvDump(v reflect.Value, d int) interface{} {
	if d > 10 { return "…" }
	switch v.Kind() {
	case reflect.Bool: return v.Bool()
	case reflect.Int, reflect.Int8, reflect.Int16, reflect.Int32, reflect.Int64: return strconv.FormatInt(v.Int(), 10)
	case reflect.Uint, reflect.Uint8, reflect.Uint16, reflect.Uint32, reflect.Uint64, reflect.Uintptr: return strconv.FormatUint(v.Uint(), 10)
	case reflect.String: return map[string]interface{}{"hex": hex.EncodeToString([]byte(v.String()))}
	case reflect.Ptr:
		if v.IsNil() { return map[string]interface{}{"nil": true} }
		return map[string]interface{}{"nil": false, "elem": gocvDump(v.Elem(), d+1)}
	case reflect.Interface:
		if v.IsNil() { return map[string]interface{}{"nil": true} }
		return map[string]interface{}{"nil": false, "dyn": v.Elem().Type().String()}
	case reflect.Struct:
		m := map[string]interface{}{}
		for i := 0; i < v.NumField(); i++ { m[v.Type().Field(i).Name] = gocvDump(v.Field(i), d+1) }
		return m
	case reflect.Slice, reflect.Array:
		if v.Type().Elem().Kind() == reflect.Uint8 {
			b := make([]byte, v.Len())
			for i := range b { b[i] = byte(v.Index(i).Uint()) }
			return map[string]interface{}{"hex": hex.EncodeToString(b), "nil": v.Kind() == reflect.Slice && v.IsNil()}
		}
		var l []interface{}
		for i := 0; i < v.Len() && i < 64; i++ { l = append(l, gocvDump(v.Index(i), d+1)) }
		return map[string]interface{}{"list": l}
	}
	return "?"
}
`

type replayResult struct {
	Ran        bool
	Panic      string
	Out        map[string]interface{}
	File       string
	Reproduced bool
	Note       string
}

// fromDump converts a dumped JSON value back into an executor value of type t.
func (rc *replayCtx) fromDump(t types.Type, j interface{}) Value {
	if _, ok := opaqueSort(t); ok {
		return rc.ex.G.Zero(t)
	}
	switch u := t.Underlying().(type) {
	case *types.Basic:
		switch {
		case u.Info()&types.IsInteger != 0:
			s, _ := j.(string)
			bi, ok := new(big.Int).SetString(s, 10)
			if !ok {
				bi = big.NewInt(0)
			}
			return IntB(bi)
		case u.Info()&types.IsBoolean != 0:
			b, _ := j.(bool)
			return BoolC(b)
		case u.Info()&types.IsString != 0:
			m, _ := j.(map[string]interface{})
			hs, _ := m["hex"].(string)
			b, _ := hex.DecodeString(hs)
			return rc.ex.G.StrConst(string(b))
		}
	case *types.Struct:
		m, _ := j.(map[string]interface{})
		sv := &StructV{T: u}
		for i := 0; i < u.NumFields(); i++ {
			sv.F = append(sv.F, rc.fromDump(u.Field(i).Type(), m[u.Field(i).Name()]))
		}
		return sv
	case *types.Pointer:
		m, _ := j.(map[string]interface{})
		if n, _ := m["nil"].(bool); n {
			return &PtrV{Nil: TTrue}
		}
		obj := rc.ex.G.NewObject(u.Elem(), "replay")
		rc.st.Heap[obj] = rc.fromDump(u.Elem(), m["elem"])
		return &PtrV{Nil: TFalse, Obj: obj}
	case *types.Interface:
		m, _ := j.(map[string]interface{})
		if n, _ := m["nil"].(bool); n {
			return &IfaceV{ID: IntC(0)}
		}
		return &IfaceV{ID: IntC(1)}
	case *types.Array:
		if isByteArray(u) {
			m, _ := j.(map[string]interface{})
			hs, _ := m["hex"].(string)
			b, _ := hex.DecodeString(hs)
			return rc.ex.G.StrConst(string(b))
		}
	case *types.Slice:
		if isByte(u.Elem()) {
			m, _ := j.(map[string]interface{})
			hs, _ := m["hex"].(string)
			b, _ := hex.DecodeString(hs)
			obj := rc.ex.G.NewObject(t, "replay")
			rc.st.Heap[obj] = rc.ex.G.StrConst(string(b))
			n := int64(len(b))
			isNil, _ := m["nil"].(bool)
			return &SliceV{Nil: BoolC(isNil), Obj: obj, Off: IntC(0), Len: IntC(n), Cap: IntC(n), Elem: u.Elem()}
		}
	}
	return rc.ex.G.Zero(t)
}

func (ex *Exec) replayValueFunction(fn *ssa.Function, ob *Obligation, workDir, repo string) *replayResult {
	res := &replayResult{}
	if fn == nil || fn.Pkg == nil || ob.Model == nil {
		res.Note = "no model or no entry function"
		return res
	}
	rc := &replayCtx{ex: ex, model: ob.Model, imports: map[string]string{}, pkg: fn.Pkg.Pkg, used: map[string]int{},
		st: &State{Heap: map[*Object]Value{}, PreHeap: map[*Object]Value{}, Ghost: map[string]Value{}, Held: map[string]int{}}}
	var decl []string
	var args []Value
	var argNames []string
	for i, p := range fn.Params {
		e, v := rc.gen(p.Type(), p.Name(), 0)
		if rc.unsup != "" {
			res.Note = rc.unsup
			return res
		}
		decl = append(decl, fmt.Sprintf("\tvar a%d %s = %s", i, rc.typeStr(p.Type()), e))
		args = append(args, v)
		argNames = append(argNames, fmt.Sprintf("a%d", i))
	}
	sig := fn.Signature
	var call string
	if sig.Recv() != nil {
		call = fmt.Sprintf("a0.%s(%s)", fn.Name(), strings.Join(argNames[1:], ", "))
	} else {
		call = fmt.Sprintf("%s(%s)", fn.Name(), strings.Join(argNames, ", "))
	}
	nres := sig.Results().Len()
	var rnames []string
	for i := 0; i < nres; i++ {
		rnames = append(rnames, fmt.Sprintf("r%d", i))
	}
	var body strings.Builder
	for _, d := range decl {
		body.WriteString(d + "\n")
	}
	body.WriteString("\tdefer func() {\n\t\tif r := recover(); r != nil { out[\"panic\"] = fmt.Sprint(r) }\n")
	for i, p := range fn.Params {
		if _, ok := p.Type().Underlying().(*types.Pointer); ok {
			fmt.Fprintf(&body, "\t\tout[\"post_a%d\"] = gocvDump(reflect.ValueOf(a%d), 0)\n", i, i)
		}
	}
	body.WriteString("\t\tb, _ := json.Marshal(out)\n\t\tos.WriteFile(os.Getenv(\"GOCV_REPLAY_OUT\"), b, 0o644)\n\t}()\n")
	if nres > 0 {
		fmt.Fprintf(&body, "\t%s := %s\n", strings.Join(rnames, ", "), call)
		for i := range rnames {
			fmt.Fprintf(&body, "\tout[\"r%d\"] = gocvDump(reflect.ValueOf(&r%d).Elem(), 0)\n", i, i)
		}
	} else {
		fmt.Fprintf(&body, "\t%s\n", call)
	}
	var src strings.Builder
	fmt.Fprintf(&src, "package %s\n\n// generated by gocv: replay of obligation %s\n// model: %v\n\nimport (\n\t\"encoding/hex\"\n\t\"encoding/json\"\n\t\"fmt\"\n\t\"os\"\n\t\"reflect\"\n\t\"strconv\"\n\t\"testing\"\n", fn.Pkg.Pkg.Name(), ob.Name, trimModel(ob.Model))
	var ips []string
	for p := range rc.imports {
		ips = append(ips, p)
	}
	sort.Strings(ips)
	for _, p := range ips {
		fmt.Fprintf(&src, "\t%s %q\n", rc.imports[p], p)
	}
	src.WriteString(")\n\nvar _ = hex.EncodeToString\nvar _ = strconv.Itoa\n" + replayHelpers + "\nfunc TestGocvReplay(t *testing.T) {\n\tout := map[string]interface{}{}\n" + body.String() + "}\n")

	os.MkdirAll(workDir, 0o755)
	base := sanitize(ob.Name)
	if len(base) > 120 {
		base = base[:120]
	}
	genFile := filepath.Join(workDir, base+"_test.go")
	os.WriteFile(genFile, []byte(src.String()), 0o644)
	res.File = genFile
	// locate the package directory
	pkgDir := ""
	fset := ex.Prog.Fset
	if fn.Pos().IsValid() {
		pkgDir = filepath.Dir(fset.Position(fn.Pos()).Filename)
	}
	if pkgDir == "" {
		res.Note = "cannot locate package directory"
		return res
	}
	overlay := map[string]map[string]string{"Replace": {filepath.Join(pkgDir, "zz_gocv_replay_test.go"): genFile}}
	ob2, _ := json.Marshal(overlay)
	ovFile := filepath.Join(workDir, base+"_overlay.json")
	os.WriteFile(ovFile, ob2, 0o644)
	outFile := filepath.Join(workDir, base+"_out.json")
	os.Remove(outFile)
	cmd := exec.Command("go", "test", "-overlay", ovFile, "-vet=off", "-count=1", "-timeout", "60s", "-run", "^TestGocvReplay$", ".")
	cmd.Dir = pkgDir
	cmd.Env = append(os.Environ(), "GOFLAGS=-mod=mod", "GOPROXY=off", "GOSUMDB=off", "GOTOOLCHAIN=local", "GOCV_REPLAY_OUT="+outFile)
	done := make(chan struct{})
	var outb []byte
	go func() { outb, _ = cmd.CombinedOutput(); close(done) }()
	select {
	case <-done:
	case <-time.After(120 * time.Second):
		if cmd.Process != nil {
			cmd.Process.Kill()
		}
		res.Note = "replay timed out"
		return res
	}
	b, err := os.ReadFile(outFile)
	if err != nil {
		res.Note = "replay did not run: " + firstLines(string(outb), 6)
		return res
	}
	res.Ran = true
	json.Unmarshal(b, &res.Out)
	if p, ok := res.Out["panic"].(string); ok {
		res.Panic = p
	}
	if strings.HasPrefix(ob.Kind, "safety") {
		res.Reproduced = res.Panic != ""
		if !res.Reproduced {
			res.Note = "real code did not panic on the model input"
		}
		return res
	}
	if ob.Clause == nil {
		res.Note = "no clause to re-evaluate"
		return res
	}
	if res.Panic != "" {
		res.Reproduced = true
		res.Note = "real code panicked: " + res.Panic
		return res
	}
	// rebuild the post-state and evaluate the violated clause concretely
	for i, p := range fn.Params {
		if pt, ok := p.Type().Underlying().(*types.Pointer); ok {
			if pv, ok := args[i].(*PtrV); ok && pv.Obj != nil {
				if d, ok := res.Out[fmt.Sprintf("post_a%d", i)].(map[string]interface{}); ok {
					if n, _ := d["nil"].(bool); !n {
						rc.st.Heap[pv.Obj] = rc.fromDump(pt.Elem(), d["elem"])
					}
				}
			}
		}
	}
	var rv Value
	if nres == 1 {
		rv = rc.fromDump(sig.Results().At(0).Type(), res.Out["r0"])
	} else {
		t := &TupleV{}
		for i := 0; i < nres; i++ {
			t.E = append(t.E, rc.fromDump(sig.Results().At(i).Type(), res.Out[fmt.Sprintf("r%d", i)]))
		}
		rv = t
	}
	names := ex.paramNames(fn, args, rv, true)
	var errs []string
	env := &Env{ex: ex, st: rc.st, names: names, errs: &errs}
	t := env.evalBool(&ob.Clause.Expr)
	switch {
	case t == nil:
		res.Note = "clause could not be re-evaluated: " + strings.Join(errs, "; ")
	case t.IsFalse():
		res.Reproduced = true
	case t.IsTrue():
		res.Note = "clause holds on the real code for the model input (solver model not reproduced)"
	default:
		res.Note = "clause did not fold to a constant: " + t.String()
	}
	return res
}

// replayDispatch is called for every failed obligation; returns the suffix of the VIOLATION line.
func replayDispatch(id string, g *nameGroup, path string) string {
	if g.Fail == nil || replayExec == nil {
		return " no-failing-input-found"
	}
	fn := replayFns[g.Fail.Entry]
	r := replayExec.replayValueFunction(fn, g.Fail, filepath.Join(verifRoot, "work", "replay", id), "")
	// append the outcome to the replay record
	var rec map[string]interface{}
	if b, err := os.ReadFile(path); err == nil {
		json.Unmarshal(b, &rec)
	}
	if rec == nil {
		rec = map[string]interface{}{}
	}
	rec["replay_ran"] = r.Ran
	rec["replay_reproduced"] = r.Reproduced
	rec["replay_note"] = r.Note
	rec["replay_panic"] = r.Panic
	rec["replay_output"] = r.Out
	if r.File != "" {
		if b, err := os.ReadFile(r.File); err == nil {
			rec["replay_test_source"] = string(b)
		}
	}
	b, _ := json.MarshalIndent(rec, "", " ")
	os.WriteFile(path, b, 0o644)
	if r.Reproduced {
		return ""
	}
	return " no-failing-input-found"
}

var (
	replayExec *Exec
	replayFns  map[string]*ssa.Function
)
