package main

import (
	"encoding/hex"
	"encoding/json"
	"fmt"
	"go/types"
	"math/big"
	"os"
	"os/exec"
	"path/filepath"
	"sort"
	"strings"
	"time"

	"golang.org/x/tools/go/ssa"
)

// Replay of solver counterexamples on the compiled code.
//
// Every non-trivial obligation keeps a snapshot: the innermost frame on the call stack whose function takes
// only "value-like" parameters (integers, booleans, strings, byte slices and arrays, structs and pointers to
// structs of those, protobuf messages), its symbolic arguments and the heap at that moment. When the solver
// refutes the obligation, the model is substituted into those symbolic values, Go literals are generated,
// an in-package test is injected with `go test -overlay`, the real function is called under recover(), and
// results plus final pointees are dumped as JSON. A safety obligation is reproduced when the call panics; a
// postcondition is reproduced when the violated clause, re-evaluated by the spec evaluator on the concrete
// pre/post values, is false.

type replaySnap struct {
	Fn    *ssa.Function
	Args  []Value
	Heap  map[*Object]Value
	Entry bool
}

func replayableType(t types.Type, depth int) bool {
	if depth > 8 {
		return false
	}
	if _, ok := opaqueSort(t); ok {
		return true // zero value is used
	}
	switch u := t.Underlying().(type) {
	case *types.Basic:
		return u.Info()&(types.IsInteger|types.IsBoolean|types.IsString) != 0
	case *types.Array:
		return replayableType(u.Elem(), depth+1)
	case *types.Slice:
		return replayableType(u.Elem(), depth+1)
	case *types.Pointer:
		return replayableType(u.Elem(), depth+1)
	case *types.Struct:
		for i := 0; i < u.NumFields(); i++ {
			f := u.Field(i)
			if _, isIface := f.Type().Underlying().(*types.Interface); isIface {
				continue // left nil
			}
			if !replayableType(f.Type(), depth+1) {
				return false
			}
		}
		return true
	}
	return false
}

func replayableFn(fn *ssa.Function) bool {
	if fn == nil || fn.Pkg == nil || fn.Parent() != nil || fn.Synthetic != "" {
		return false
	}
	for _, p := range fn.Params {
		if !replayableType(p.Type(), 0) {
			return false
		}
	}
	// struct fields of interface type inside parameters must not be dereferenced: only accept when no
	// parameter (transitively) contains an interface field that is a dependency (heuristic: receiver structs
	// with interface fields are service objects, not values)
	for _, p := range fn.Params {
		if hasIfaceField(p.Type(), 0) {
			return false
		}
	}
	return true
}

func hasIfaceField(t types.Type, depth int) bool {
	if depth > 8 {
		return false
	}
	if _, ok := opaqueSort(t); ok {
		return false
	}
	switch u := t.Underlying().(type) {
	case *types.Pointer:
		// pointers to external structs (caches, databases, mutex-bearing services) are dependencies too
		if _, opaque := opaqueSort(u.Elem()); opaque {
			return true
		}
		return hasIfaceField(u.Elem(), depth+1)
	case *types.Slice:
		return hasIfaceField(u.Elem(), depth+1)
	case *types.Array:
		return hasIfaceField(u.Elem(), depth+1)
	case *types.Struct:
		for i := 0; i < u.NumFields(); i++ {
			ft := u.Field(i).Type()
			if it, ok := ft.Underlying().(*types.Interface); ok {
				// `any`-typed payload fields (Transaction.ID) are fine, method-bearing interfaces are dependencies
				if it.NumMethods() > 0 {
					return true
				}
				continue
			}
			if hasIfaceField(ft, depth+1) {
				return true
			}
		}
	}
	return false
}

func (ex *Exec) snapshot(st *State, entryPre bool) *replaySnap {
	if len(st.Frames) == 0 {
		return nil
	}
	if entryPre {
		fr := st.Frames[0]
		if !replayableFn(fr.Fn) {
			return nil
		}
		return &replaySnap{Fn: fr.Fn, Args: fr.Args, Heap: st.PreHeap, Entry: true}
	}
	for i := len(st.Frames) - 1; i >= 0; i-- {
		fr := st.Frames[i]
		if replayableFn(fr.Fn) && fr.Args != nil {
			h := make(map[*Object]Value, len(st.Heap))
			for k, v := range st.Heap {
				h[k] = v
			}
			return &replaySnap{Fn: fr.Fn, Args: fr.Args, Heap: h, Entry: i == 0}
		}
	}
	return nil
}

type replayCtx struct {
	ex      *Exec
	model   map[string]*Term
	imports map[string]string // path -> name
	pkg     *types.Package
	unsup   string
	st      *State // concrete state built for clause re-evaluation
	heap    map[*Object]Value
	objMap  map[*Object]*Object
	filler  map[int]string
}

func (rc *replayCtx) qual(p *types.Package) string {
	if p == rc.pkg {
		return ""
	}
	if n, ok := rc.imports[p.Path()]; ok {
		return n
	}
	n := fmt.Sprintf("imp%d", len(rc.imports))
	rc.imports[p.Path()] = n
	return n
}

func (rc *replayCtx) typeStr(t types.Type) string { return types.TypeString(t, rc.qual) }

// concInt evaluates an integer/boolean term under the model; unassigned symbols default to 0/false.
func (rc *replayCtx) conc(t *Term) *Term {
	r := t.Subst(rc.model)
	if r.IsConstInt() || r.IsConstBool() {
		return r
	}
	// default the remaining free variables
	def := map[string]*Term{}
	r.Walk(func(x *Term) {
		if x.Op == "var" {
			switch x.Sort {
			case SInt:
				def[x.Name] = IntC(0)
			case SBool:
				def[x.Name] = TFalse
			}
		}
	})
	r = r.Subst(def)
	return r
}

func (rc *replayCtx) concInt(t *Term) (*big.Int, bool) {
	r := rc.conc(t)
	if r.IsConstInt() {
		return r.I, true
	}
	return big.NewInt(0), false
}

func (rc *replayCtx) concBool(t *Term, def bool) bool {
	r := rc.conc(t)
	if r.IsConstBool() {
		return r.B
	}
	return def
}

func (rc *replayCtx) fill(id, n int) string {
	b := make([]byte, n)
	for i := range b {
		b[i] = byte('a' + (id*7+i)%26)
	}
	return string(b)
}

func (rc *replayCtx) bytesOf(t *Term) string {
	// literal string constants keep their content
	if t.Op == "app" && len(t.Args) == 0 {
		if lit, ok := rc.ex.G.strLits[t.Name]; ok {
			return lit
		}
	}
	n, _ := rc.concInt(rc.ex.G.BLen(t))
	if n.Sign() < 0 || n.Cmp(big.NewInt(1<<20)) > 0 {
		rc.unsup = "model asks for a byte string of length " + n.String()
		return ""
	}
	return rc.fill(t.ID(), int(n.Int64()))
}

func (rc *replayCtx) objContent(o *Object) (Value, bool) {
	if v, ok := rc.heap[o]; ok {
		return v, true
	}
	return nil, false
}

// gen produces a Go expression and the concrete executor value for the symbolic value v of type t.
// v may be nil (unknown): a default is generated.
func (rc *replayCtx) gen(t types.Type, v Value, depth int) (string, Value) {
	if depth > 14 {
		rc.unsup = "input too deep"
		return "nil", nil
	}
	if _, ok := opaqueSort(t); ok {
		return rc.typeStr(t) + "{}", rc.ex.G.Zero(t)
	}
	switch u := t.Underlying().(type) {
	case *types.Basic:
		switch {
		case u.Info()&types.IsInteger != 0:
			bi := big.NewInt(0)
			if tv, ok := v.(*Term); ok && tv.Sort == SInt {
				bi, _ = rc.concInt(tv)
			}
			return fmt.Sprintf("%s(%s)", rc.typeStr(t), bi.String()), IntB(bi)
		case u.Info()&types.IsBoolean != 0:
			b := false
			if tv, ok := v.(*Term); ok && tv.Sort == SBool {
				b = rc.concBool(tv, false)
			}
			return fmt.Sprintf("%s(%v)", rc.typeStr(t), b), BoolC(b)
		case u.Info()&types.IsString != 0:
			s := ""
			if tv, ok := v.(*Term); ok && tv.Sort == SB {
				s = rc.bytesOf(tv)
			}
			return fmt.Sprintf("%s(%q)", rc.typeStr(t), s), rc.ex.G.StrConst(s)
		}
	case *types.Array:
		if isByteArray(u) {
			s := rc.fill(7, int(u.Len()))
			if tv, ok := v.(*Term); ok && tv.Sort == SB {
				s = rc.fill(tv.ID(), int(u.Len()))
				if tv.Op == "app" && tv.Name == "bzero" {
					s = string(make([]byte, u.Len()))
				}
			}
			return fmt.Sprintf("func() (a %s) { copy(a[:], %q); return }()", rc.typeStr(t), s), rc.ex.G.StrConst(s)
		}
		if u.Len() <= 64 {
			av, _ := v.(*ArrV)
			var parts []string
			a := &ArrV{Elem: u.Elem()}
			for i := 0; i < int(u.Len()); i++ {
				var ev Value
				if av != nil && i < len(av.E) {
					ev = av.E[i]
				}
				e, cv := rc.gen(u.Elem(), ev, depth+1)
				parts = append(parts, e)
				a.E = append(a.E, cv)
			}
			return fmt.Sprintf("%s{%s}", rc.typeStr(t), strings.Join(parts, ", ")), a
		}
	case *types.Struct:
		svIn, _ := v.(*StructV)
		sv := &StructV{T: u}
		var parts []string
		for i := 0; i < u.NumFields(); i++ {
			f := u.Field(i)
			var fv Value
			if svIn != nil && i < len(svIn.F) {
				fv = svIn.F[i]
			}
			if _, isIface := f.Type().Underlying().(*types.Interface); isIface || (!f.Exported() && f.Pkg() != rc.pkg) {
				sv.F = append(sv.F, rc.ex.G.Zero(f.Type()))
				continue
			}
			e, cv := rc.gen(f.Type(), fv, depth+1)
			sv.F = append(sv.F, cv)
			parts = append(parts, f.Name()+": "+e)
		}
		return fmt.Sprintf("%s{%s}", rc.typeStr(t), strings.Join(parts, ", ")), sv
	case *types.Pointer:
		pv, _ := v.(*PtrV)
		if pv != nil && (pv.Obj == nil || rc.concBool(pv.Nil, false)) {
			return fmt.Sprintf("(%s)(nil)", rc.typeStr(t)), &PtrV{Nil: TTrue}
		}
		var content Value
		if pv != nil && pv.Obj != nil {
			if c, ok := rc.objContent(pv.Obj); ok {
				content = rc.ex.readPath(rc.st, c, pv.Path, pv.Obj.Typ)
			}
			if len(pv.Path) == 0 {
				if no, ok := rc.objMap[pv.Obj]; ok {
					_ = no // aliasing of inputs is not reconstructed: a second pointer to the same object gets a copy
				}
			}
		}
		e, cv := rc.gen(u.Elem(), content, depth+1)
		obj := rc.ex.G.NewObject(u.Elem(), "replay_in")
		obj.Sym = true
		rc.st.Heap[obj] = cv
		rc.st.PreHeap[obj] = cv
		if pv != nil && pv.Obj != nil {
			rc.objMap[pv.Obj] = obj
		}
		if _, isStruct := u.Elem().Underlying().(*types.Struct); isStruct && strings.HasSuffix(e, "}") {
			return "&" + e, &PtrV{Nil: TFalse, Obj: obj}
		}
		return fmt.Sprintf("ptrTo(%s)", e), &PtrV{Nil: TFalse, Obj: obj}
	case *types.Slice:
		sl, _ := v.(*SliceV)
		if isByte(u.Elem()) {
			if sl != nil && sl.Obj == nil {
				return fmt.Sprintf("%s(nil)", rc.typeStr(t)), &SliceV{Nil: TTrue, Off: IntC(0), Len: IntC(0), Cap: IntC(0), Elem: u.Elem()}
			}
			s := ""
			if sl != nil {
				n, _ := rc.concInt(sl.Len)
				if n.Sign() < 0 || n.Cmp(big.NewInt(1<<20)) > 0 {
					rc.unsup = "model asks for a byte slice of length " + n.String()
					n = big.NewInt(0)
				}
				id := 3
				if c, ok := rc.objContent(sl.Obj); ok {
					if ct, ok := rc.ex.readPath(rc.st, c, sl.Path, sl.Obj.Typ).(*Term); ok {
						id = ct.ID()
					}
				}
				s = rc.fill(id, int(n.Int64()))
			}
			obj := rc.ex.G.NewObject(t, "replay_in")
			obj.Sym = true
			c := rc.ex.G.StrConst(s)
			rc.st.Heap[obj] = c
			rc.st.PreHeap[obj] = c
			n := int64(len(s))
			return fmt.Sprintf("%s(%q)", rc.typeStr(t), s), &SliceV{Nil: TFalse, Obj: obj, Off: IntC(0), Len: IntC(n), Cap: IntC(n), Elem: u.Elem()}
		}
		n := 0
		if sl != nil {
			bn, _ := rc.concInt(sl.Len)
			if bn.IsInt64() && bn.Int64() > 0 {
				n = int(bn.Int64())
			}
		}
		if n > 64 {
			n = 64
		}
		var parts []string
		a := &ArrV{Elem: u.Elem()}
		for i := 0; i < n; i++ {
			var ev Value
			if sl != nil && sl.Obj != nil {
				if c, ok := rc.objContent(sl.Obj); ok {
					back := rc.ex.readPath(rc.st, c, sl.Path, sl.Obj.Typ)
					switch b := back.(type) {
					case *ArrV:
						off, _ := rc.concInt(sl.Off)
						k := int(off.Int64()) + i
						if k < len(b.E) {
							ev = b.E[k]
						}
					case *SymSeq:
						for _, kv := range b.Known {
							_ = kv
						}
						// known elements are keyed by symbolic index terms; match those whose index evaluates to i
						for key, kv := range b.Known {
							if tm, ok := internTab[key]; ok {
								if ci, ok := rc.concInt(Sub(tm, sl.Off)); ok && ci.IsInt64() && int(ci.Int64()) == i {
									ev = kv
								}
							}
						}
					}
				}
			}
			if ev == nil {
				// elements of message slices are non-nil (A9)
				if pt, ok := u.Elem().Underlying().(*types.Pointer); ok {
					o := rc.ex.G.NewObject(pt.Elem(), "el")
					ev = &PtrV{Nil: TFalse, Obj: o}
				}
			}
			e, cv := rc.gen(u.Elem(), ev, depth+1)
			parts = append(parts, e)
			a.E = append(a.E, cv)
		}
		obj := rc.ex.G.NewObject(t, "replay_in")
		obj.Sym = true
		rc.st.Heap[obj] = a
		rc.st.PreHeap[obj] = a
		return fmt.Sprintf("%s{%s}", rc.typeStr(t), strings.Join(parts, ", ")), &SliceV{Nil: BoolC(n == 0), Obj: obj, Off: IntC(0), Len: IntC(int64(n)), Cap: IntC(int64(n)), Elem: u.Elem()}
	case *types.Interface:
		return "nil", &IfaceV{ID: IntC(0)}
	}
	rc.unsup = "input type " + t.String() + " has no replay generator"
	return "nil", nil
}

const replayHelpers = `
func ptrTo[T any](v T) *T { return &v }

func gocvDump(v reflect.Value, d int) interface{} {
	if d > 10 { return "…" }
	switch v.Kind() {
	case reflect.Bool: return v.Bool()
	case reflect.Int, reflect.Int8, reflect.Int16, reflect.Int32, reflect.Int64: return strconv.FormatInt(v.Int(), 10)
	case reflect.Uint, reflect.Uint8, reflect.Uint16, reflect.Uint32, reflect.Uint64, reflect.Uintptr: return strconv.FormatUint(v.Uint(), 10)
	case reflect.String: return map[string]interface{}{"hex": hex.EncodeToString([]byte(v.String()))}
	case reflect.Ptr:
		if v.IsNil() { return map[string]interface{}{"nil": true} }
		return map[string]interface{}{"nil": false, "elem": gocvDump(v.Elem(), d+1)}
	case reflect.Interface:
		if v.IsNil() { return map[string]interface{}{"nil": true} }
		return map[string]interface{}{"nil": false, "dyn": v.Elem().Type().String()}
	case reflect.Struct:
		m := map[string]interface{}{}
		for i := 0; i < v.NumField(); i++ { m[v.Type().Field(i).Name] = gocvDump(v.Field(i), d+1) }
		return m
	case reflect.Slice, reflect.Array:
		if v.Type().Elem().Kind() == reflect.Uint8 {
			b := make([]byte, v.Len())
			for i := range b { b[i] = byte(v.Index(i).Uint()) }
			return map[string]interface{}{"hex": hex.EncodeToString(b), "nil": v.Kind() == reflect.Slice && v.IsNil()}
		}
		var l []interface{}
		for i := 0; i < v.Len() && i < 64; i++ { l = append(l, gocvDump(v.Index(i), d+1)) }
		return map[string]interface{}{"list": l, "len": v.Len()}
	}
	return "?"
}
`

type replayResult struct {
	Ran        bool
	Panic      string
	Out        map[string]interface{}
	File       string
	Reproduced bool
	Note       string
	Fn         string
}

// fromDump converts a dumped JSON value back into an executor value of type t.
func (rc *replayCtx) fromDump(t types.Type, j interface{}) Value {
	if _, ok := opaqueSort(t); ok {
		return rc.ex.G.Zero(t)
	}
	switch u := t.Underlying().(type) {
	case *types.Basic:
		switch {
		case u.Info()&types.IsInteger != 0:
			s, _ := j.(string)
			bi, ok := new(big.Int).SetString(s, 10)
			if !ok {
				bi = big.NewInt(0)
			}
			return IntB(bi)
		case u.Info()&types.IsBoolean != 0:
			b, _ := j.(bool)
			return BoolC(b)
		case u.Info()&types.IsString != 0:
			m, _ := j.(map[string]interface{})
			hs, _ := m["hex"].(string)
			b, _ := hex.DecodeString(hs)
			return rc.ex.G.StrConst(string(b))
		}
	case *types.Struct:
		m, _ := j.(map[string]interface{})
		sv := &StructV{T: u}
		for i := 0; i < u.NumFields(); i++ {
			sv.F = append(sv.F, rc.fromDump(u.Field(i).Type(), m[u.Field(i).Name()]))
		}
		return sv
	case *types.Pointer:
		m, _ := j.(map[string]interface{})
		if n, _ := m["nil"].(bool); n {
			return &PtrV{Nil: TTrue}
		}
		obj := rc.ex.G.NewObject(u.Elem(), "replay")
		rc.st.Heap[obj] = rc.fromDump(u.Elem(), m["elem"])
		return &PtrV{Nil: TFalse, Obj: obj}
	case *types.Interface:
		m, _ := j.(map[string]interface{})
		if n, _ := m["nil"].(bool); n {
			return &IfaceV{ID: IntC(0)}
		}
		return &IfaceV{ID: IntC(1)}
	case *types.Array:
		if isByteArray(u) {
			m, _ := j.(map[string]interface{})
			hs, _ := m["hex"].(string)
			b, _ := hex.DecodeString(hs)
			return rc.ex.G.StrConst(string(b))
		}
		if isByte(u.Elem()) {
			m, _ := j.(map[string]interface{})
			hs, _ := m["hex"].(string)
			b, _ := hex.DecodeString(hs)
			a := &ArrV{Elem: u.Elem()}
			for _, x := range b {
				a.E = append(a.E, IntC(int64(x)))
			}
			return a
		}
	case *types.Slice:
		if isByte(u.Elem()) {
			m, _ := j.(map[string]interface{})
			hs, _ := m["hex"].(string)
			b, _ := hex.DecodeString(hs)
			obj := rc.ex.G.NewObject(t, "replay")
			rc.st.Heap[obj] = rc.ex.G.StrConst(string(b))
			n := int64(len(b))
			isNil, _ := m["nil"].(bool)
			return &SliceV{Nil: BoolC(isNil), Obj: obj, Off: IntC(0), Len: IntC(n), Cap: IntC(n), Elem: u.Elem()}
		}
		m, _ := j.(map[string]interface{})
		l, _ := m["list"].([]interface{})
		a := &ArrV{Elem: u.Elem()}
		for _, e := range l {
			a.E = append(a.E, rc.fromDump(u.Elem(), e))
		}
		obj := rc.ex.G.NewObject(t, "replay")
		rc.st.Heap[obj] = a
		n := int64(len(a.E))
		return &SliceV{Nil: BoolC(n == 0), Obj: obj, Off: IntC(0), Len: IntC(n), Cap: IntC(n), Elem: u.Elem()}
	}
	return rc.ex.G.Zero(t)
}

func (ex *Exec) replayValueFunction(ob *Obligation, workDir string) *replayResult {
	res := &replayResult{}
	snap := ob.Snap
	if snap == nil || snap.Fn == nil || ob.Model == nil {
		res.Note = "no replayable frame on the call stack (service objects with interface dependencies) or no model"
		return res
	}
	fn := snap.Fn
	res.Fn = fn.String()
	rc := &replayCtx{ex: ex, model: map[string]*Term{}, imports: map[string]string{}, pkg: fn.Pkg.Pkg, heap: snap.Heap, objMap: map[*Object]*Object{},
		st: &State{Heap: map[*Object]Value{}, PreHeap: map[*Object]Value{}, Ghost: map[string]Value{}, PreGhost: map[string]Value{}, Held: map[string]int{}}}
	for k, v := range ob.Model {
		switch v {
		case "true":
			rc.model[k] = TTrue
		case "false":
			rc.model[k] = TFalse
		default:
			if bi, ok := new(big.Int).SetString(v, 10); ok {
				rc.model[k] = IntB(bi)
			}
		}
	}
	var decl []string
	var args []Value
	var argNames []string
	for i, p := range fn.Params {
		var av Value
		if i < len(snap.Args) {
			av = snap.Args[i]
		}
		e, v := rc.gen(p.Type(), av, 0)
		if rc.unsup != "" {
			res.Note = rc.unsup
			return res
		}
		decl = append(decl, fmt.Sprintf("\tvar a%d %s = %s", i, rc.typeStr(p.Type()), e))
		args = append(args, v)
		argNames = append(argNames, fmt.Sprintf("a%d", i))
	}
	sig := fn.Signature
	var call string
	if sig.Recv() != nil {
		call = fmt.Sprintf("a0.%s(%s)", fn.Name(), strings.Join(argNames[1:], ", "))
	} else {
		call = fmt.Sprintf("%s(%s)", fn.Name(), strings.Join(argNames, ", "))
	}
	nres := sig.Results().Len()
	var rnames []string
	for i := 0; i < nres; i++ {
		rnames = append(rnames, fmt.Sprintf("r%d", i))
	}
	var body strings.Builder
	for _, d := range decl {
		body.WriteString(d + "\n")
	}
	body.WriteString("\tdefer func() {\n\t\tif r := recover(); r != nil { out[\"panic\"] = fmt.Sprint(r) }\n")
	for i, p := range fn.Params {
		if _, ok := p.Type().Underlying().(*types.Pointer); ok {
			fmt.Fprintf(&body, "\t\tout[\"post_a%d\"] = gocvDump(reflect.ValueOf(a%d), 0)\n", i, i)
		}
	}
	body.WriteString("\t\tb, _ := json.Marshal(out)\n\t\tos.WriteFile(os.Getenv(\"GOCV_REPLAY_OUT\"), b, 0o644)\n\t}()\n")
	if nres > 0 {
		fmt.Fprintf(&body, "\t%s := %s\n", strings.Join(rnames, ", "), call)
		for i := range rnames {
			fmt.Fprintf(&body, "\tout[\"r%d\"] = gocvDump(reflect.ValueOf(&r%d).Elem(), 0)\n", i, i)
		}
	} else {
		fmt.Fprintf(&body, "\t%s\n", call)
	}
	var src strings.Builder
	fmt.Fprintf(&src, "package %s\n\n// generated by gocv: replay of obligation %s\n// called function: %s\n// model: %v\n\nimport (\n\t\"encoding/hex\"\n\t\"encoding/json\"\n\t\"fmt\"\n\t\"os\"\n\t\"reflect\"\n\t\"strconv\"\n\t\"testing\"\n", fn.Pkg.Pkg.Name(), ob.Name, fn.String(), trimModel(ob.Model))
	var ips []string
	for p := range rc.imports {
		ips = append(ips, p)
	}
	sort.Strings(ips)
	for _, p := range ips {
		fmt.Fprintf(&src, "\t%s %q\n", rc.imports[p], p)
	}
	src.WriteString(")\n\nvar _ = hex.EncodeToString\nvar _ = strconv.Itoa\n" + replayHelpers + "\nfunc TestGocvReplay(t *testing.T) {\n\tout := map[string]interface{}{}\n" + body.String() + "}\n")

	os.MkdirAll(workDir, 0o755)
	base := sanitize(ob.Name)
	if len(base) > 120 {
		base = base[:120]
	}
	genFile := filepath.Join(workDir, base+"_test.go")
	os.WriteFile(genFile, []byte(src.String()), 0o644)
	res.File = genFile
	pkgDir := ""
	if fn.Pos().IsValid() {
		pkgDir = filepath.Dir(ex.Prog.Fset.Position(fn.Pos()).Filename)
	}
	if pkgDir == "" {
		res.Note = "cannot locate package directory"
		return res
	}
	overlay := map[string]map[string]string{"Replace": {filepath.Join(pkgDir, "zz_gocv_replay_test.go"): genFile}}
	ob2, _ := json.Marshal(overlay)
	ovFile := filepath.Join(workDir, base+"_overlay.json")
	os.WriteFile(ovFile, ob2, 0o644)
	outFile := filepath.Join(workDir, base+"_out.json")
	os.Remove(outFile)
	cmd := exec.Command("go", "test", "-tags", "verif", "-overlay", ovFile, "-vet=off", "-count=1", "-timeout", "60s", "-run", "^TestGocvReplay$", ".")
	cmd.Dir = pkgDir
	cmd.Env = append(os.Environ(), "GOFLAGS=-mod=mod", "GOPROXY=off", "GOSUMDB=off", "GOTOOLCHAIN=local", "GOCV_REPLAY_OUT="+outFile)
	done := make(chan struct{})
	var outb []byte
	go func() { outb, _ = cmd.CombinedOutput(); close(done) }()
	select {
	case <-done:
	case <-time.After(120 * time.Second):
		if cmd.Process != nil {
			cmd.Process.Kill()
		}
		res.Note = "replay timed out"
		return res
	}
	b, err := os.ReadFile(outFile)
	if err != nil {
		res.Note = "replay did not run: " + firstLines(string(outb), 8)
		return res
	}
	res.Ran = true
	json.Unmarshal(b, &res.Out)
	if p, ok := res.Out["panic"].(string); ok {
		res.Panic = p
	}
	if strings.HasPrefix(ob.Kind, "safety") {
		res.Reproduced = res.Panic != ""
		if !res.Reproduced {
			res.Note = "real code did not panic on the model input"
		}
		return res
	}
	if ob.Clause == nil || !snap.Entry {
		res.Note = "no clause to re-evaluate at this frame"
		return res
	}
	if res.Panic != "" {
		// a panic is not the violation of a functional clause; it is reported, not counted as a reproduction
		res.Note = "real code panicked on the model input (inconclusive for this clause): " + res.Panic
		return res
	}
	for i, p := range fn.Params {
		if pt, ok := p.Type().Underlying().(*types.Pointer); ok {
			if pv, ok := args[i].(*PtrV); ok && pv.Obj != nil {
				if d, ok := res.Out[fmt.Sprintf("post_a%d", i)].(map[string]interface{}); ok {
					if n, _ := d["nil"].(bool); !n {
						rc.st.Heap[pv.Obj] = rc.fromDump(pt.Elem(), d["elem"])
					}
				}
			}
		}
	}
	var rv Value
	if nres == 1 {
		rv = rc.fromDump(sig.Results().At(0).Type(), res.Out["r0"])
	} else {
		t := &TupleV{}
		for i := 0; i < nres; i++ {
			t.E = append(t.E, rc.fromDump(sig.Results().At(i).Type(), res.Out[fmt.Sprintf("r%d", i)]))
		}
		rv = t
	}
	names := ex.paramNames(fn, args, rv, true)
	var errs []string
	env := &Env{ex: ex, st: rc.st, names: names, errs: &errs}
	t := env.evalBool(&ob.Clause.Expr)
	switch {
	case t == nil:
		res.Note = "clause could not be re-evaluated: " + strings.Join(errs, "; ")
	case t.IsFalse():
		res.Reproduced = true
	case t.IsTrue():
		res.Note = "clause holds on the real code for the model input (solver model not reproduced)"
	default:
		res.Note = "clause did not fold to a constant: " + t.String()
	}
	return res
}

// replayDispatch is called for every failed obligation; returns the suffix of the VIOLATION line.
func replayDispatch(id string, g *nameGroup, path string) string {
	if g.Fail == nil || replayExec == nil {
		return " no-failing-input-found"
	}
	r := replayExec.replayValueFunction(g.Fail, filepath.Join(scratchRoot, "work", "replay", id))
	var rec map[string]interface{}
	if b, err := os.ReadFile(path); err == nil {
		json.Unmarshal(b, &rec)
	}
	if rec == nil {
		rec = map[string]interface{}{}
	}
	rec["replay_ran"] = r.Ran
	rec["replay_function"] = r.Fn
	rec["replay_reproduced"] = r.Reproduced
	rec["replay_note"] = r.Note
	rec["replay_panic"] = r.Panic
	rec["replay_output"] = r.Out
	if r.File != "" {
		if b, err := os.ReadFile(r.File); err == nil {
			rec["replay_test_source"] = string(b)
		}
	}
	b, _ := json.MarshalIndent(rec, "", " ")
	os.WriteFile(path, b, 0o644)
	if r.Reproduced {
		return ""
	}
	return " no-failing-input-found"
}

var (
	replayExec *Exec
	replayFns  map[string]*ssa.Function
)
