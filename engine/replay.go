package main

// replayDispatch is filled in by replay drivers per function family; without a driver the violation is
// reported with the solver's model only.
func replayDispatch(id string, g *nameGroup, path string) string {
	return " no-failing-input-found"
}
