package main

import (
	"fmt"
	"go/ast"
	"go/token"
	"go/types"
	"sort"
	"strings"

	"golang.org/x/tools/go/ssa"
)

func (ex *Exec) paramNames(fn *ssa.Function, args []Value, res Value, haveRes bool) map[string]Value {
	names := map[string]Value{}
	for i, p := range fn.Params {
		if i < len(args) {
			names[p.Name()] = args[i]
		}
	}
	base, haveBase := loadSignatureBaseline()[canonFn(strings.ReplaceAll(fn.String(), modulePrefix+"/", ""))]
	if haveBase && len(base.Params) == len(fn.Params) {
		// renamed parameters: the name the contract was written against still denotes the same position
		for i, old := range base.Params {
			if _, taken := names[old]; !taken && old != "" && old != "_" && i < len(args) {
				names[old] = args[i]
			}
		}
	}
	if haveRes {
		sig := fn.Signature
		r := sig.Results()
		elems := tupleElems(res)
		if r.Len() == 1 {
			elems = []Value{res}
		}
		for i := 0; i < r.Len() && i < len(elems); i++ {
			nm := r.At(i).Name()
			if nm != "" && nm != "_" {
				names[nm] = elems[i]
			}
			names[fmt.Sprintf("result%d", i)] = elems[i]
			if r.Len() == 1 {
				names["result"] = elems[i]
			}
			if i == r.Len()-1 && isErrorType(r.At(i).Type()) {
				if _, taken := names["err"]; !taken {
					names["err"] = elems[i]
				}
			}
		}
		if haveBase && len(base.Results) == r.Len() {
			for i, old := range base.Results {
				if _, taken := names[old]; !taken && old != "" && old != "_" && i < len(elems) {
					names[old] = elems[i]
				}
			}
		}
	}
	return names
}

// freeVarNames makes the variables a closure captures available to its contract under their source names (their
// current content in st).
func (ex *Exec) freeVarNames(st *State, fr *Frame, names map[string]Value) map[string]Value {
	for i, fv := range fr.Fn.FreeVars {
		if i >= len(fr.Bind) {
			break
		}
		if p, ok := fr.Bind[i].(*PtrV); ok && p.Obj != nil {
			if _, taken := names[fv.Name()]; !taken {
				names[fv.Name()] = ex.load(st, p, nil)
			}
		}
	}
	// renamed captured variables: the recorded names denote the same binding positions
	if base, ok := loadSignatureBaseline()[canonFn(strings.ReplaceAll(fr.Fn.String(), modulePrefix+"/", ""))]; ok && len(base.FreeVars) == len(fr.Fn.FreeVars) {
		for i, old := range base.FreeVars {
			if _, taken := names[old]; taken || i >= len(fr.Bind) {
				continue
			}
			if p, ok := fr.Bind[i].(*PtrV); ok && p.Obj != nil {
				names[old] = ex.load(st, p, nil)
			}
		}
	}
	return names
}

// VerifyFunction symbolically executes fn against its contract (may be nil: safety only).
// MissingLoopTargets: covers clauses whose loop no longer exists in the function they are written on.
var MissingLoopTargets = map[string]bool{}

func (ex *Exec) VerifyFunction(fn *ssa.Function, ct *Contract) {
	if len(fn.Blocks) == 0 {
		return
	}
	ex.entry = fn
	ex.entryCt = ct
	// every loop a contract talks about must exist (after ordinal translation): an invariant that is silently attached
	// to no loop would neither be checked nor assumed
	if ct != nil {
		have := map[int]bool{}
		for _, lp := range ex.loopInfo(fn).Loops {
			have[baselineLoopOrdinal(fn, lp.Ordinal)] = true
		}
		miss := func(k int, line string) {
			if !have[k] {
				ex.specErrorOnce(fmt.Sprintf("%s: %s has no loop#%d (loops found: %d)", line, ex.fnName(fn), k, len(have)))
			}
		}
		for _, c := range ct.Invs {
			miss(c.Loop, c.Line)
		}
		for _, c := range ct.Covers {
			if !have[c.Loop] {
				// the loop moved out of this function (extracted into a helper): the clause has no target here; it is
				// reported in the evidence (missing_targets) and is not by itself an error or a violation
				MissingLoopTargets[fmt.Sprintf("%s: covers clause %q: %s has no loop#%d any more", c.Line, c.Label, ex.fnName(fn), c.Loop)] = true
			}
		}
	}
	// aliasing partitions of same-typed pointer parameters: all distinct, plus each aliased pair
	type pair struct{ i, j int }
	pairs := []pair{{-1, -1}}
	for i := range fn.Params {
		for j := i + 1; j < len(fn.Params); j++ {
			ti, tj := fn.Params[i].Type(), fn.Params[j].Type()
			if _, ok := ti.Underlying().(*types.Pointer); ok && types.Identical(ti, tj) {
				pairs = append(pairs, pair{i, j})
			}
		}
	}
	for _, pr := range pairs {
		st := &State{Heap: map[*Object]Value{}, PreHeap: map[*Object]Value{}, Ghost: map[string]Value{}, PreGhost: map[string]Value{}, Held: map[string]int{}}
		fr := &Frame{Fn: fn, Block: fn.Blocks[0], Locals: map[ssa.Value]Value{}, LoopHit: map[*ssa.BasicBlock]int{}, Cut: map[*ssa.BasicBlock]bool{}}
		var args []Value
		for i, p := range fn.Params {
			var v Value
			if pr.j == i {
				v = args[pr.i]
			} else {
				v = ex.G.Fresh(p.Type(), p.Name())
			}
			args = append(args, v)
			fr.Locals[p] = v
		}
		for _, fv := range fn.FreeVars {
			// a captured variable is a cell that exists: the pointer to it is never nil
			save := ex.G.nonNil
			ex.G.nonNil = true
			fr.Bind = append(fr.Bind, ex.G.Fresh(fv.Type(), "fv_"+fv.Name()))
			ex.G.nonNil = save
		}
		fr.Args = args
		st.Frames = []*Frame{fr}
		if ct != nil {
			var errs []string
			env := &Env{ex: ex, st: st, names: ex.freeVarNames(st, fr, ex.paramNames(fn, args, nil, false)), errs: &errs}
			for _, rq := range ct.Requires {
				t := env.evalBool(&rq.Expr)
				if t == nil {
					ex.Specs.Errors = append(ex.Specs.Errors, fmt.Sprintf("%s: requires %q: %s", rq.Line, rq.Src, strings.Join(errs, "; ")))
					st.Dead = true
					break
				}
				st.Assume(t)
			}
			if !st.Dead && pr.i < 0 && len(ct.Requires) > 0 {
				// vacuity: the precondition must be satisfiable
				ob := &Obligation{Name: ex.fnName(fn) + "/cover/requires", Kind: "cover", Goal: TFalse, PC: append([]*Term(nil), st.PC...), Props: ct.Props, Fn: fn.String()}
				ex.Obls = append(ex.Obls, ob)
			}
		}
		if st.Dead {
			continue
		}
		ex.push(st)
		ex.runAll()
	}
}

func (ex *Exec) clauseName(fn *ssa.Function, kind string, cl *Clause, idx int) string {
	label := cl.Label
	if label == "" {
		label = fmt.Sprintf("#%d", idx)
	}
	return fmt.Sprintf("%s/%s/%s", ex.fnName(fn), kind, label)
}

// finish checks the postconditions of the entry function on one path.
func (ex *Exec) finish(st *State, fr *Frame, res Value) {
	ex.endStates++
	ct := ex.entryCt
	if ct == nil {
		return
	}
	ex.event(st, &Event{Callee: "return", Args: fr.Args, Results: tupleElems(res), Fn: fr.Fn, Kind: "return"})
	if currentTier == "thorough" && ex.returnCovers[fr.Fn] < 4 {
		// vacuity guard of the thorough tier: under everything that was assumed on the way (precondition, loop
		// invariants after a cut, postconditions of applied contracts, dependency models) at least one return of the
		// function must be reachable - otherwise its postconditions hold for no execution at all. Up to four returning
		// paths are tried; the obligation is met when one of them is satisfiable.
		if ex.returnCovers == nil {
			ex.returnCovers = map[*ssa.Function]int{}
		}
		ex.returnCovers[fr.Fn]++
		ex.Obls = append(ex.Obls, &Obligation{Name: ex.fnName(fr.Fn) + "/cover/a-return-is-reachable", Kind: "cover", Goal: TFalse, PC: append([]*Term(nil), st.PC...), Props: ct.Props, Fn: fr.Fn.String()})
	}
	names := ex.freeVarNames(st, fr, ex.paramNames(fr.Fn, fr.Args, res, true))
	for i, en := range ct.Ensures {
		if en.Assumed {
			AssumedClauses[fmt.Sprintf("assumed postcondition (not checked against the body): %s [%s] %s", shortName(ex.fnName(fr.Fn)), en.Label, en.Src)] = true
			continue
		}
		var errs []string
		env := &Env{ex: ex, st: st, names: names, errs: &errs}
		t := env.evalBool(&en.Expr)
		if t == nil {
			ex.Specs.Errors = append(ex.Specs.Errors, fmt.Sprintf("%s: ensures %q: %s", en.Line, en.Src, strings.Join(errs, "; ")))
			continue
		}
		ob := &Obligation{Name: ex.clauseName(fr.Fn, "post", en, i), Kind: "post", Goal: t, Props: en.Props, Fn: fr.Fn.String(), Note: en.Line, Clause: en, Entry: fr.Fn.String()}
		ex.record(st, ob)
	}
	for i, ef := range ct.Effects {
		if ef.Primitive {
			continue
		}
		var errs []string
		env := &Env{ex: ex, st: st, names: names, errs: &errs}
		c := env.evalBool(ef.Cond)
		at, ok := ex.argTerm(st, env.evalBytesArg(ef.Arg))
		if c == nil || !ok {
			ex.Specs.Errors = append(ex.Specs.Errors, fmt.Sprintf("%s: effect %q: %s", ef.Line, ef.Src, strings.Join(errs, "; ")))
			continue
		}
		goal := Implies(c, Eq(Select(ex.ghostPred(st, ef.Pred), at), BoolC(ef.Value)))
		ob := &Obligation{Name: fmt.Sprintf("%s/effect/%s#%d", ex.fnName(fr.Fn), ef.Pred, i), Kind: "post", Goal: goal, Props: ct.Props, Fn: fr.Fn.String(), Note: ef.Line}
		ex.record(st, ob)
	}
	if ct.HasAssign {
		ex.checkFrame(st, fr, ct, names)
	}
	ex.checkRespond(st, fr, ct, names)
}

func (ex *Exec) record(st *State, ob *Obligation) {
	if len(st.Notes) > 0 {
		ob.Imprecise = true
		if ob.Note == "" {
			ob.Note = st.Notes[len(st.Notes)-1]
		}
	}
	if st.Decide(ob.Goal) == 1 {
		ob.Result = "folded"
	} else {
		ob.PC = append([]*Term(nil), st.PC...)
		ob.Snap = ex.snapshot(st, ob.Kind == "post" || ob.Kind == "frame")
	}
	if ex.entryCt != nil && ex.entryCt.SeqMode {
		ob.Seq = true
	}
	ex.Obls = append(ex.Obls, ob)
}

// checkFrame: every pre-existing object whose content differs from the entry content must be covered by assigns.
func (ex *Exec) checkFrame(st *State, fr *Frame, ct *Contract, names map[string]Value) {
	var allowed []*PtrV
	var errs []string
	env := &Env{ex: ex, st: st, names: names, errs: &errs}
	for _, a := range ct.Assigns {
		p := env.lvalue(a)
		if p != nil {
			allowed = append(allowed, p)
		}
	}
	var objs []*Object
	for o := range st.Heap {
		if o.Sym && st.Written[o] {
			objs = append(objs, o)
		}
	}
	sort.Slice(objs, func(i, j int) bool { return objs[i].ID < objs[j].ID })
	for _, o := range objs {
		cur := st.Heap[o]
		pre, ok := st.PreHeap[o]
		if !ok || cur == pre {
			continue
		}
		whole := false
		for _, p := range allowed {
			if p.Obj == o && len(p.Path) == 0 {
				whole = true
			}
		}
		if whole {
			continue
		}
		// compare outside the allowed sub-paths
		curM, preM := cur, pre
		for _, p := range allowed {
			if p.Obj == o {
				same := ex.readPath(st, preM, p.Path, o.Typ)
				curM = ex.writePath(st, curM, p.Path, same, o.Typ)
			}
		}
		eq := ex.valEqDeep(st, curM, preM)
		ob := &Obligation{Name: fmt.Sprintf("%s/frame/%s", ex.fnName(fr.Fn), sanitize(o.Name)), Kind: "frame", Goal: eq, Props: ct.Props, Fn: fr.Fn.String()}
		ex.record(st, ob)
	}
}

func (ex *Exec) valEqDeep(st *State, a, b Value) *Term {
	if a == b {
		return TTrue
	}
	switch x := a.(type) {
	case *MapState:
		y, ok := b.(*MapState)
		if !ok {
			return TFalse
		}
		c := Eq(x.Has, y.Has)
		if x.Vals != nil && y.Vals != nil {
			c = And(c, ex.valEqDeep(st, x.Vals, y.Vals))
		}
		return c
	case *SymSeq:
		if y, ok := b.(*SymSeq); ok && x.ID == y.ID {
			return TTrue
		}
		return Var(ex.G.name("seqeq"), SBool)
	case *SliceV:
		if y, ok := b.(*SliceV); ok {
			if x.Obj == y.Obj {
				return And(Eq(x.Off, y.Off), Eq(x.Len, y.Len))
			}
		}
		return Var(ex.G.name("sleq"), SBool)
	}
	return ex.valEq(st, a, b, nil)
}

func (e *Env) lvalue(x interface{}) *PtrV { return e.lvalueExpr(x) }

// ---------- modular use of a contract at a call site ----------

func (ex *Exec) applyContract(st *State, fr *Frame, ins ssa.Instruction, f *ssa.Function, ct *Contract, args []Value, dst ssa.Value) {
	if ex.UsedContracts == nil {
		ex.UsedContracts = map[string]*Contract{}
	}
	ex.UsedContracts[f.String()] = ct
	names := ex.paramNames(f, args, nil, false)
	var errs []string
	env := &Env{ex: ex, st: st, names: names, errs: &errs}
	ord := ex.callOrdinal(ins, f)
	for i, rq := range ct.Requires {
		t := env.evalBool(&rq.Expr)
		if t == nil {
			ex.Specs.Errors = append(ex.Specs.Errors, fmt.Sprintf("%s: requires %q at call in %s: %s", rq.Line, rq.Src, fr.Fn.Name(), strings.Join(errs, "; ")))
			continue
		}
		label := rq.Label
		if label == "" {
			label = fmt.Sprintf("#%d", i)
		}
		// a call-site precondition belongs to the properties of the callee's clause: every caller of a
		// contracted function must be a target of those properties (props.json "functions")
		props := append([]string(nil), rq.Props...)
		ob := &Obligation{Name: fmt.Sprintf("%s/pre@%s#%d/%s", ex.fnName(fr.Fn), shortName(f.String()), ord, label), Kind: "pre", Goal: t, Props: props, Fn: fr.Fn.String()}
		if ins != nil {
			ob.Pos = ex.Prog.Fset.Position(ins.Pos())
		}
		ex.record(st, ob)
		st.Assume(t)
		if st.Dead {
			return
		}
	}
	// frame: havoc what the contract may assign
	var targets []*PtrV
	var reachVals []Value
	if ct.HasAssign {
		for _, a := range ct.Assigns {
			// reach(x): everything reachable from the value x (closure bindings, pointees)
			if ce, ok := a.(*ast.CallExpr); ok {
				if id, ok := ce.Fun.(*ast.Ident); ok && id.Name == "reach" && len(ce.Args) == 1 {
					if v := env.eval(ce.Args[0]); v != nil {
						reachVals = append(reachVals, v)
					}
					continue
				}
			}
			if p := env.lvalueExpr(a); p != nil {
				targets = append(targets, p)
			}
		}
	}
	for _, v := range reachVals {
		ex.forceInit(st, v, map[*Object]bool{})
	}
	for _, p := range targets {
		if p.Obj != nil {
			ex.objVal(st, p.Obj)
		}
	}
	if !ct.HasAssign {
		// no frame given: everything reachable from the arguments may change
		for _, a := range args {
			ex.forceInit(st, a, map[*Object]bool{})
		}
	}
	snapshot := make(map[*Object]Value, len(st.Heap))
	for k, v := range st.Heap {
		snapshot[k] = v
	}
	oldGhost := make(map[string]Value, len(st.Ghost))
	for k, v := range st.Ghost {
		oldGhost[k] = v
	}
	if ct.HasAssign {
		for _, p := range targets {
			if p.Obj == nil {
				continue
			}
			root := ex.objVal(st, p.Obj)
			t := typeAtPath(p.Obj.Typ, p.Path)
			st.Heap[p.Obj] = ex.writePath(st, root, p.Path, ex.G.Fresh(t, "post_"+sanitize(p.Obj.Name)), p.Obj.Typ)
			ex.markWritten(st, p.Obj)
		}
		for _, v := range reachVals {
			ex.havocReach(st, v, map[*Object]bool{})
		}
	} else {
		for _, a := range args {
			ex.havocReach(st, a, map[*Object]bool{})
		}
	}
	res := ex.freshResults(f.Signature, sanitize(shortName(f.String())))
	if ct.ErrOrigin != "" {
		markLib(res)
		markOrigin(res, ct.ErrOrigin)
	}
	// results of contracts may be nil pointers: regenerate pointer results as possibly-nil
	res = ex.relaxNil(f.Signature, res)
	names2 := ex.paramNames(f, args, res, true)
	env2 := &Env{ex: ex, st: st, names: names2, errs: &errs, old: snapshot, oldGhost: oldGhost}
	for _, ef := range ct.Effects {
		if ef.Var != "" {
			c := env2.evalBool(ef.Cond)
			nv, ok := env2.evalSE(ef.VarExpr).(*Term)
			if c == nil || !ok || nv.Sort != SInt {
				ex.Specs.Errors = append(ex.Specs.Errors, fmt.Sprintf("%s: effect %q: %s", ef.Line, ef.Src, strings.Join(errs, "; ")))
				continue
			}
			st.Ghost["gv:"+ef.Var] = Ite(c, nv, ex.ghostVar(st, ef.Var))
			continue
		}
		c := env2.evalBool(ef.Cond)
		at, ok := ex.argTerm(st, env2.evalBytesArg(ef.Arg))
		if c == nil || !ok {
			ex.Specs.Errors = append(ex.Specs.Errors, fmt.Sprintf("%s: effect %q: %s", ef.Line, ef.Src, strings.Join(errs, "; ")))
			continue
		}
		arr := ex.ghostPred(st, ef.Pred)
		st.Ghost["gp:"+ef.Pred] = Ite(c, Store(arr, at, BoolC(ef.Value)), arr)
	}
	for _, en := range ct.Ensures {
		if en.Assumed {
			AssumedClauses[fmt.Sprintf("assumed postcondition (not checked against the body): %s [%s] %s", shortName(ex.fnName(f)), en.Label, en.Src)] = true
		}
		t := env2.evalBool(&en.Expr)
		if t == nil {
			ex.Specs.Errors = append(ex.Specs.Errors, fmt.Sprintf("%s: ensures %q at call in %s: %s", en.Line, en.Src, fr.Fn.Name(), strings.Join(errs, "; ")))
			continue
		}
		st.Assume(t)
	}
	ex.setResult(st, fr, dst, res)
	ex.event(st, &Event{Callee: f.String(), Args: args, Results: tupleElems(res), Instr: ins, Fn: fr.Fn, Kind: "call"})
}

func (ex *Exec) relaxNil(sig *types.Signature, res Value) Value {
	fix := func(v Value, t types.Type) Value {
		if p, ok := v.(*PtrV); ok {
			return &PtrV{Nil: Var(ex.G.name("res_isnil"), SBool), Obj: p.Obj, Path: p.Path}
		}
		return v
	}
	r := sig.Results()
	if r.Len() == 1 {
		return fix(res, r.At(0).Type())
	}
	if t, ok := res.(*TupleV); ok {
		n := &TupleV{}
		for i, e := range t.E {
			n.E = append(n.E, fix(e, r.At(i).Type()))
		}
		return n
	}
	return res
}

func (ex *Exec) forceInit(st *State, v Value, seen map[*Object]bool) {
	switch x := v.(type) {
	case *PtrV:
		if x.Obj != nil && !seen[x.Obj] {
			seen[x.Obj] = true
			ex.forceInit(st, ex.objVal(st, x.Obj), seen)
		}
	case *SliceV:
		if x.Obj != nil && !seen[x.Obj] {
			seen[x.Obj] = true
			ex.objVal(st, x.Obj)
		}
	case *MapV:
		if x.Obj != nil && !seen[x.Obj] {
			seen[x.Obj] = true
			ex.objVal(st, x.Obj)
		}
	case *StructV:
		for _, f := range x.F {
			ex.forceInit(st, f, seen)
		}
	case *FuncV:
		for _, b := range x.Bind {
			ex.forceInit(st, b, seen)
		}
	}
}

func (ex *Exec) callOrdinal(ins ssa.Instruction, f *ssa.Function) int {
	if ins == nil || ins.Parent() == nil {
		return 0
	}
	n := 0
	for _, b := range ins.Parent().Blocks {
		for _, i2 := range b.Instrs {
			if i2 == ins {
				return n
			}
			var cc *ssa.CallCommon
			switch c := i2.(type) {
			case *ssa.Call:
				cc = &c.Call
			case *ssa.Defer:
				cc = &c.Call
			case *ssa.Go:
				cc = &c.Call
			}
			if cc != nil && cc.StaticCallee() == f {
				n++
			}
		}
	}
	return n
}

// ---------- loops ----------

func (ex *Exec) loopNames(st *State, fr *Frame, lp *Loop) map[string]Value {
	names := map[string]Value{}
	for i, p := range fr.Fn.Params {
		if i < len(fr.Args) {
			names[p.Name()] = fr.Args[i]
		} else if v, ok := fr.Locals[p]; ok {
			names[p.Name()] = v
		}
	}
	if base, ok := loadSignatureBaseline()[canonFn(strings.ReplaceAll(fr.Fn.String(), modulePrefix+"/", ""))]; ok && len(base.Params) == len(fr.Fn.Params) {
		for i, old := range base.Params {
			if _, taken := names[old]; !taken && old != "" && old != "_" {
				if cur, ok := names[fr.Fn.Params[i].Name()]; ok {
					names[old] = cur
				}
			}
		}
	}
	// named allocs (address-taken locals): current content
	for _, b := range fr.Fn.Blocks {
		for _, ins := range b.Instrs {
			if a, ok := ins.(*ssa.Alloc); ok && a.Comment != "" {
				if v, ok := fr.Locals[a]; ok {
					if p, ok := v.(*PtrV); ok && p.Obj != nil {
						names[a.Comment] = ex.load(st, p, nil)
						names["&"+a.Comment] = p
					}
				}
			}
		}
	}
	if lp != nil {
		for _, ins := range lp.Header.Instrs {
			if phi, ok := ins.(*ssa.Phi); ok && phi.Comment != "" {
				if v, ok := fr.Locals[phi]; ok {
					names[phi.Comment] = v
				}
			}
		}
	}
	for k, v := range fr.Names {
		if _, ok := names[k]; !ok {
			names[k] = v
		}
	}
	// renamed locals: the names the invariants were written against denote the same positions
	if base, ok := loadSignatureBaseline()[canonFn(strings.ReplaceAll(fr.Fn.String(), modulePrefix+"/", ""))]; ok {
		curAllocs, curPhis := localNames(fr.Fn)
		alias := func(old, cur []string) {
			if len(old) != len(cur) {
				return
			}
			for i, o := range old {
				if _, taken := names[o]; taken || o == cur[i] {
					continue
				}
				if v, ok := names[cur[i]]; ok {
					names[o] = v
				}
				if v, ok := names["&"+cur[i]]; ok {
					names["&"+o] = v
				}
			}
		}
		alias(base.Allocs, curAllocs)
		if lp != nil {
			alias(base.Phis[fmt.Sprintf("%d", baselineLoopOrdinal(fr.Fn, lp.Ordinal))], curPhis[fmt.Sprintf("%d", lp.Ordinal)])
		}
	}
	return ex.freeVarNames(st, fr, names)
}

func (ex *Exec) loopInvs(fr *Frame, lp *Loop) []*Clause {
	if ex.Specs == nil {
		return nil
	}
	ct := ex.Specs.Contracts[fr.Fn.String()]
	if ct == nil {
		return nil
	}
	var out []*Clause
	for _, c := range ct.Invs {
		if c.Loop == baselineLoopOrdinal(fr.Fn, lp.Ordinal) {
			out = append(out, c)
		}
	}
	return out
}

func (ex *Exec) checkInvariants(st *State, fr *Frame, lp *Loop, phase string) {
	invs := ex.loopInvs(fr, lp)
	if len(invs) == 0 {
		return
	}
	names := ex.loopNames(st, fr, lp)
	for i, c := range invs {
		var errs []string
		env := &Env{ex: ex, st: st, names: names, errs: &errs}
		t := env.evalBool(&c.Expr)
		if t == nil {
			ex.Specs.Errors = append(ex.Specs.Errors, fmt.Sprintf("%s: invariant %q: %s", c.Line, c.Src, strings.Join(errs, "; ")))
			continue
		}
		label := c.Label
		if label == "" {
			label = fmt.Sprintf("#%d", i)
		}
		ob := &Obligation{Name: fmt.Sprintf("%s/inv#%d/%s/%s", ex.fnName(fr.Fn), baselineLoopOrdinal(fr.Fn, lp.Ordinal), label, phase), Kind: "inv", Goal: t, Props: c.Props, Fn: fr.Fn.String()}
		ex.record(st, ob)
		st.Assume(t)
	}
}

func (ex *Exec) assumeInvariants(st *State, fr *Frame, lp *Loop) {
	invs := ex.loopInvs(fr, lp)
	if len(invs) == 0 {
		return
	}
	names := ex.loopNames(st, fr, lp)
	for _, c := range invs {
		var errs []string
		env := &Env{ex: ex, st: st, names: names, errs: &errs}
		if t := env.evalBool(&c.Expr); t != nil {
			st.Assume(t)
		}
	}
}

// havocLoop forgets everything the loop body may change: header phis and the type-based write set.
func (ex *Exec) havocLoop(st *State, fr *Frame, lp *Loop) {
	st.Depth++
	for _, ins := range lp.Header.Instrs {
		phi, ok := ins.(*ssa.Phi)
		if !ok {
			break
		}
		hint := phi.Comment
		if hint == "" {
			hint = "loopvar"
		}
		entryVal := fr.Locals[phi]
		nv := ex.G.Fresh(phi.Type(), hint)
		fr.Locals[phi] = nv
		// monotone counters: a phi that starts at v0 and is only ever incremented by a positive constant
		// stays >= v0 (assuming the counter does not overflow: it is bounded by a length <= 2^40)
		if isInteger(phi.Type()) {
			mono := true
			for i, e := range phi.Edges {
				if !lp.Body[lp.Header.Preds[i]] {
					continue
				}
				b, ok := e.(*ssa.BinOp)
				if !ok || b.Op != token.ADD || b.X != ssa.Value(phi) {
					mono = false
					break
				}
				c, ok := b.Y.(*ssa.Const)
				if !ok || c.Value == nil || c.Int64() <= 0 {
					mono = false
					break
				}
			}
			if mono {
				if ev, ok := entryVal.(*Term); ok {
					if nt, ok := nv.(*Term); ok {
						st.Assume(Ge(nt, ev))
						// guarded counters: when the header test is `phi+c < bound` with a loop-invariant bound and the
						// back-edge value is that same phi+c, every value after the first satisfied the guard
						if iff, ok := lp.Header.Instrs[len(lp.Header.Instrs)-1].(*ssa.If); ok {
							if cmp, ok := iff.Cond.(*ssa.BinOp); ok && cmp.Op == token.LSS {
								next, ok1 := cmp.X.(*ssa.BinOp)
								allNext := ok1
								if ok1 {
									for i, e := range phi.Edges {
										if lp.Body[lp.Header.Preds[i]] && e != ssa.Value(next) {
											allNext = false
										}
									}
								}
								invariantBound := false
								switch b := cmp.Y.(type) {
								case *ssa.Const:
									invariantBound = true
								case ssa.Instruction:
									invariantBound = !lp.Body[b.Block()]
								case *ssa.Parameter:
									invariantBound = true
								}
								if allNext && invariantBound && lp.Body[lp.Header.Succs[0]] {
									if bv, ok := ex.eval(fr, cmp.Y).(*Term); ok && bv.Sort == SInt {
										st.Assume(Or(Eq(nt, ev), Lt(nt, bv)))
									}
								}
							}
						}
					}
				}
			}
		}
	}
	ws := ex.loopWriteSet(fr.Fn, lp)
	if ws.Unknown {
		ws = ws.clone()
		ex.dynamicCallees(st, ws)
	}
	for callee := range ws.Calls {
		if ct := ex.Specs.Contracts[callee]; ct != nil {
			for _, ef := range ct.Effects {
				if ef.Var != "" {
					st.Ghost["gv:"+ef.Var] = Var(ex.G.name("ghost_"+ef.Var), SInt)
					continue
				}
				st.Ghost["gp:"+ef.Pred] = Var(ex.G.name("ghost_"+ef.Pred), ArrSort(ex.Specs.GhostPreds[ef.Pred], SBool))
			}
		}
	}
	paramObjs := map[*Object]bool{}
	for i := range ws.Params {
		if i < len(fr.Args) {
			if p, ok := fr.Args[i].(*PtrV); ok && p.Obj != nil {
				ex.objVal(st, p.Obj)
				paramObjs[p.Obj] = true
			}
		}
	}
	var objs []*Object
	for o := range st.Heap {
		objs = append(objs, o)
	}
	sort.Slice(objs, func(i, j int) bool { return objs[i].ID < objs[j].ID })
	for _, o := range objs {
		cur := st.Heap[o]
		if paramObjs[o] {
			st.Heap[o] = ex.havocAll(cur, o.Typ)
			ex.markWritten(st, o)
			continue
		}
		defer func(o *Object, before Value) {
			if st.Heap[o] != before {
				ex.markWritten(st, o)
			}
		}(o, cur)
		if ws.All {
			st.Heap[o] = ex.havocAll(cur, o.Typ)
			continue
		}
		if a, ok := o.Site.(*ssa.Alloc); ok && ws.Allocs[a] {
			st.Heap[o] = ex.havocAll(cur, o.Typ)
			continue
		}
		if o.Global != nil && ws.Globals[o.Global] {
			st.Heap[o] = ex.havocAll(cur, o.Typ)
			continue
		}
		if a, ok := o.Site.(*ssa.Alloc); ok && !allocEscapes(a) {
			// a local whose address never leaves its function can only be written by direct stores (ws.Allocs)
			continue
		}
		st.Heap[o] = ex.havocByType(cur, o.Typ, ws, false)
	}
}

func (ex *Exec) havocAll(cur Value, t types.Type) Value {
	switch c := cur.(type) {
	case *MapState:
		if mt, ok := t.Underlying().(*types.Map); ok {
			return ex.G.FreshMapState(mt, "loopmap")
		}
		return c
	case *SymSeq:
		ex.G.n++
		return &SymSeq{ID: ex.G.n, Elem: c.Elem, Name: c.Name + "_l"}
	case *ArrV:
		n := &ArrV{Elem: c.Elem}
		for range c.E {
			n.E = append(n.E, ex.G.Fresh(c.Elem, "loopel"))
		}
		return n
	case *Term:
		if c.Sort == SB {
			nb := ex.G.FreshBytes("loopbytes", -1)
			ex.G.facts[nb.Name] = append(ex.G.facts[nb.Name], Eq(App("blen", SInt, nb), ex.G.BLen(c)))
			return nb
		}
	}
	if t == nil {
		return cur
	}
	if _, ok := t.Underlying().(*types.Slice); ok {
		return cur
	}
	return ex.G.Fresh(t, "loophavoc")
}

// havocByType rewrites the parts of a value that match the write set.
func (ex *Exec) havocByType(cur Value, t types.Type, ws *WriteSet, inElem bool) Value {
	if t == nil {
		return cur
	}
	if ws.Derefs[typeKey(t)] {
		return ex.havocAll(cur, t)
	}
	switch c := cur.(type) {
	case *StructV:
		st, ok := t.Underlying().(*types.Struct)
		if !ok || st.NumFields() != len(c.F) {
			return cur
		}
		var n *StructV
		for i := range c.F {
			ft := st.Field(i).Type()
			var nv Value
			if ws.Fields[fieldKey{typeKey(t), i}] {
				nv = ex.havocAll(c.F[i], ft)
			} else {
				nv = ex.havocByType(c.F[i], ft, ws, false)
			}
			if nv != c.F[i] {
				if n == nil {
					n = &StructV{T: c.T, F: append([]Value(nil), c.F...)}
				}
				n.F[i] = nv
			}
		}
		if n != nil {
			return n
		}
		return cur
	case *ArrV:
		if ws.Elems[typeKey(c.Elem)] {
			return ex.havocAll(cur, t)
		}
		var n *ArrV
		for i := range c.E {
			nv := ex.havocByType(c.E[i], c.Elem, ws, true)
			if nv != c.E[i] {
				if n == nil {
					n = &ArrV{Elem: c.Elem, E: append([]Value(nil), c.E...)}
				}
				n.E[i] = nv
			}
		}
		if n != nil {
			return n
		}
		return cur
	case *SymSeq:
		if ws.Elems[typeKey(c.Elem)] {
			return ex.havocAll(cur, t)
		}
		// element structs written through field addresses
		for k := range ws.Fields {
			if k.Struct == typeKey(c.Elem) {
				return ex.havocAll(cur, t)
			}
		}
		return cur
	case *Term:
		if c.Sort == SB && ws.Elems["uint8"] || c.Sort == SB && ws.Elems["byte"] {
			return ex.havocAll(cur, t)
		}
		return cur
	case *MapState:
		if ws.Maps[typeKey(t.Underlying())] {
			return ex.havocAll(cur, t)
		}
		return cur
	}
	return cur
}

// ---------- temporal obligations ----------

func parseTemporal(kind, rest string, defProps []string) (*Temporal, error) {
	props, label, body := parseTag(rest)
	if props == nil {
		props = defProps
	}
	t := &Temporal{Kind: kind, Label: label, Props: props, Src: body}
	for _, part := range strings.Split(body, ";") {
		part = strings.TrimSpace(part)
		switch {
		case strings.HasPrefix(part, "A:"):
			p := strings.TrimSpace(part[2:])
			if i := strings.Index(p, " when "); i >= 0 {
				se, err := parseSpecExpr(p[i+6:])
				if err != nil {
					return nil, err
				}
				t.When = se
				p = strings.TrimSpace(p[:i])
			}
			t.A = p
		case strings.HasPrefix(part, "orB:"):
			t.B2 = strings.TrimSpace(part[4:])
		case strings.HasPrefix(part, "orwhere "):
			se, err := parseSpecExpr(part[8:])
			if err != nil {
				return nil, err
			}
			t.Cond2 = se
		case strings.HasPrefix(part, "B:"):
			t.B = strings.TrimSpace(part[2:])
		case strings.HasPrefix(part, "where "):
			se, err := parseSpecExpr(part[6:])
			if err != nil {
				return nil, err
			}
			t.Cond = se
		case strings.HasPrefix(part, "unless "):
			se, err := parseSpecExpr(part[7:])
			if err != nil {
				return nil, err
			}
			t.Unless = se
		case part == "":
		default:
			return nil, fmt.Errorf("temporal clause: cannot parse part %q", part)
		}
	}
	if t.A == "" {
		return nil, fmt.Errorf("temporal clause needs A:")
	}
	return t, nil
}

func eventMatches(e *Event, pat string) bool {
	if pat == "" {
		return false
	}
	return nameMatches(canonFn(strings.ReplaceAll(e.Callee, modulePrefix+"/", "")), pat)
}

// nameMatches is the pattern language of temporal clauses: "=x" exact, otherwise suffix match, where a method's
// receiver may be written without its package qualifier; a "go:" pattern only matches goroutine starts.
func nameMatches(name, pat string) bool {
	if strings.HasPrefix(pat, "=") {
		return name == pat[1:]
	}
	if strings.HasPrefix(pat, "go:") {
		if !strings.HasPrefix(name, "go:") {
			return false
		}
		return nameMatches(name[3:], pat[3:])
	}
	if strings.HasSuffix(name, pat) {
		return true
	}
	// a step of a range loop is named range.next#k (k as in loop#k); the pattern range.next matches every loop
	if strings.HasPrefix(name, "range.next#") && pat == "range.next" {
		return true
	}
	if strings.HasPrefix(name, "map.next#") && pat == "map.next" {
		return true
	}
	// receiver written without its package qualifier: (*AccountingBook).m matches (*accountant.AccountingBook).m
	if strings.HasPrefix(name, "(") {
		if i := strings.Index(name, ")"); i > 0 {
			recv := name[1:i]
			star := ""
			if strings.HasPrefix(recv, "*") {
				star, recv = "*", recv[1:]
			}
			if j := strings.LastIndex(recv, "."); j >= 0 {
				recv = recv[j+1:]
			}
			if strings.HasSuffix("("+star+recv+")"+name[i+1:], pat) {
				return true
			}
		}
	}
	return false
}

func (ex *Exec) eventNames(base map[string]Value, prefix string, e *Event) {
	for i, a := range e.Args {
		base[fmt.Sprintf("%s%d", prefix, i)] = a
	}
	for i, r := range e.Results {
		base[fmt.Sprintf("%sr%d", prefix, i)] = r
	}
}

// onEvent checks precede/never clauses of the entry contract when a matching event occurs.
func (ex *Exec) onEvent(st *State, ev *Event) {
	ct := ex.entryCt
	if ct == nil || len(ct.Temporal) == 0 {
		return
	}
	fr0 := st.Frames[0]
	for ti, tc := range ct.Temporal {
		if tc.Kind == "respond" || !eventMatches(ev, tc.A) {
			continue
		}
		ex.noteHit(tc)
		names := ex.freeVarNames(st, fr0, ex.paramNames(fr0.Fn, fr0.Args, nil, false))
		ex.eventNames(names, "a", ev)
		var errs []string
		env := &Env{ex: ex, st: st, names: names, errs: &errs}
		when := TTrue
		if tc.When != nil {
			when = env.evalBool(tc.When)
			if when == nil {
				if len(errs) > 0 && strings.HasPrefix(errs[0], "other-shape:") {
					continue // the event has another shape than the one the clause talks about
				}
				ex.Specs.Errors = append(ex.Specs.Errors, fmt.Sprintf("%s: when: %s", tc.Line, strings.Join(errs, "; ")))
				continue
			}
		}
		if when.IsFalse() {
			continue
		}
		label := tc.Label
		if label == "" {
			label = fmt.Sprintf("#%d", ti)
		}
		site := ""
		if ev.Instr != nil {
			site = fmt.Sprintf("@%s#%d", shortName(ex.fnName(ev.Instr.Parent())), ex.eventOrdinal(ev))
		}
		name := fmt.Sprintf("%s/%s/%s%s", ex.fnName(fr0.Fn), tc.Kind, label, site)
		var goal *Term
		if tc.Kind == "never" {
			goal = Not(when)
		} else {
			var alts []*Term
			for _, b := range st.Events {
				if b == ev {
					continue
				}
				for alt := 0; alt < 2; alt++ {
					pat, cond := tc.B, tc.Cond
					if alt == 1 {
						pat, cond = tc.B2, tc.Cond2
					}
					if pat == "" || !eventMatches(b, pat) {
						continue
					}
					nb := map[string]Value{}
					for k, v := range names {
						nb[k] = v
					}
					ex.eventNames(nb, "b", b)
					var berrs []string
					envb := &Env{ex: ex, st: st, names: nb, errs: &berrs}
					c := TTrue
					if cond != nil {
						c = envb.evalBool(cond)
						if c == nil {
							if !onlyNoEvent(berrs) {
								ex.Specs.Errors = append(ex.Specs.Errors, fmt.Sprintf("%s: where: %s", tc.Line, strings.Join(berrs, "; ")))
							}
							continue
						}
					}
					alts = append(alts, c)
				}
			}
			goal = Implies(when, Or(alts...))
			if tc.Unless != nil {
				if u := env.evalBool(tc.Unless); u != nil {
					goal = Or(u, goal)
				}
			}
		}
		ob := &Obligation{Name: name, Kind: tc.Kind, Goal: goal, Props: tc.Props, Fn: fr0.Fn.String(), Note: tc.Line}
		if ev.Instr != nil {
			ob.Pos = ex.Prog.Fset.Position(ev.Instr.Pos())
		}
		ex.record(st, ob)
	}
}

func (ex *Exec) eventOrdinal(ev *Event) int {
	ins := ev.Instr
	if ins == nil || ins.Parent() == nil {
		return 0
	}
	n := 0
	for _, b := range ins.Parent().Blocks {
		for _, i2 := range b.Instrs {
			if i2 == ins {
				return n
			}
			var cc *ssa.CallCommon
			switch c := i2.(type) {
			case *ssa.Call:
				cc = &c.Call
			case *ssa.Defer:
				cc = &c.Call
			case *ssa.Go:
				cc = &c.Call
			}
			if cc != nil && calleeName(cc) == strings.TrimPrefix(ev.Callee, "go:") {
				n++
			}
		}
	}
	return n
}

// checkRespond: every triggering call must be followed by the required call before the function returns.
func (ex *Exec) checkRespond(st *State, fr *Frame, ct *Contract, names map[string]Value) {
	ex.checkRespondFrom(st, fr, ct, names, 0, false)
}

// checkRespondFrom checks respond clauses for the triggering events recorded at index >= from. With
// onlyLoop set (end of the arbitrary iteration of a cut loop) only clauses of the function that owns the
// loop are meaningful for events of that iteration.
func (ex *Exec) checkRespondFrom(st *State, fr *Frame, ct *Contract, names map[string]Value, from int, onlyLoop bool) {
	for ti, tc := range ct.Temporal {
		if tc.Kind != "respond" {
			continue
		}
		for ai, a := range st.Events {
			if ai < from || !eventMatches(a, tc.A) {
				continue
			}
			ex.noteHit(tc)
			na := map[string]Value{}
			for k, v := range names {
				na[k] = v
			}
			ex.eventNames(na, "a", a)
			var errs []string
			env := &Env{ex: ex, st: st, names: na, errs: &errs}
			when := TTrue
			if tc.When != nil {
				when = env.evalBool(tc.When)
				if when == nil {
					if len(errs) > 0 && strings.HasPrefix(errs[0], "other-shape:") {
						continue // the event has another shape than the one the clause talks about
					}
					ex.Specs.Errors = append(ex.Specs.Errors, fmt.Sprintf("%s: when: %s", tc.Line, strings.Join(errs, "; ")))
					continue
				}
			}
			if when.IsFalse() {
				continue
			}
			var alts []*Term
			for _, b := range st.Events[ai+1:] {
				for alt := 0; alt < 2; alt++ {
					pat, cond := tc.B, tc.Cond
					if alt == 1 {
						pat, cond = tc.B2, tc.Cond2
					}
					if pat == "" || !eventMatches(b, pat) {
						continue
					}
					nb := map[string]Value{}
					for k, v := range na {
						nb[k] = v
					}
					ex.eventNames(nb, "b", b)
					var berrs []string
					envb := &Env{ex: ex, st: st, names: nb, errs: &berrs}
					c := TTrue
					if cond != nil {
						c = envb.evalBool(cond)
						if c == nil {
							if !onlyNoEvent(berrs) {
								ex.Specs.Errors = append(ex.Specs.Errors, fmt.Sprintf("%s: where: %s", tc.Line, strings.Join(berrs, "; ")))
							}
							continue
						}
					}
					alts = append(alts, c)
				}
			}
			goal := Implies(when, Or(alts...))
			if tc.Unless != nil {
				if u := env.evalBool(tc.Unless); u != nil {
					goal = Or(u, goal)
				}
			}
			label := tc.Label
			if label == "" {
				label = fmt.Sprintf("#%d", ti)
			}
			site := ""
			if a.Instr != nil {
				site = fmt.Sprintf("@%s#%d", shortName(ex.fnName(a.Instr.Parent())), ex.eventOrdinal(a))
			}
			ob := &Obligation{Name: fmt.Sprintf("%s/respond/%s%s", ex.fnName(fr.Fn), label, site), Kind: "respond", Goal: goal, Props: tc.Props, Fn: fr.Fn.String(), Note: tc.Line}
			if a.Instr != nil {
				ob.Pos = ex.Prog.Fset.Position(a.Instr.Pos())
			}
			ex.record(st, ob)
		}
	}
}

// onEventDiscipline: "no-graph-write-while-walking" - a call that needs the graph's write lock while an
// ancestor walker of this goroutine may still hold its read lock.
func (ex *Exec) onEventDiscipline(st *State, ev *Event) {
	if ex.entryCt != nil && ev.Kind == "go" {
		if props, ok := ex.entryCt.Discipline["goroutines-own-their-loop-variables"]; ok {
			ex.checkLoopVarCapture(st, ev, props)
		}
	}
	if ex.entryCt != nil && len(st.Retained) > 0 {
		if props, ok := ex.entryCt.Discipline["retained-buffers-are-not-recycled"]; ok {
			ex.checkRetained(st, ev, props)
		}
	}
	if ex.entryCt == nil || len(st.Open) == 0 {
		return
	}
	props, ok := ex.entryCt.Discipline["no-graph-write-while-walking"]
	if !ok {
		return
	}
	for _, pat := range []string{"DAG).AddVertexByID", "DAG).AddEdge", "DAG).DeleteVertex"} {
		if eventMatches(ev, pat) {
			fr0 := st.Frames[0]
			site := ""
			if ev.Instr != nil {
				site = fmt.Sprintf("@%s#%d", shortName(ex.fnName(ev.Instr.Parent())), ex.eventOrdinal(ev))
			}
			ob := &Obligation{Name: fmt.Sprintf("%s/ghost:open/graph-write%s", ex.fnName(fr0.Fn), site), Kind: "ghost", Goal: TFalse, Props: props, Fn: fr0.Fn.String(),
				Note: "the graph's write lock is requested while an abandoned ancestor walker may hold the read lock"}
			if ev.Instr != nil {
				ob.Pos = ex.Prog.Fset.Position(ev.Instr.Pos())
			}
			ex.record(st, ob)
		}
	}
}

// CheckLemma turns a lemma into one obligation over fresh symbolic values of the declared types.
func (ex *Exec) CheckLemma(lm *Lemma) {
	st := &State{Heap: map[*Object]Value{}, PreHeap: map[*Object]Value{}, Ghost: map[string]Value{}, PreGhost: map[string]Value{}, Held: map[string]int{}}
	names := map[string]Value{}
	var pkg *ssa.Package
	for _, p := range ex.Prog.AllPackages() {
		if p.Pkg.Path() == lm.Pkg {
			pkg = p
		}
	}
	for _, v := range lm.Vars {
		switch v[1] {
		case "nat":
			t := Var(ex.G.name("lemma_"+v[0]), SInt)
			ex.G.facts[t.Name] = []*Term{Ge(t, IntC(0))}
			names[v[0]] = t
		case "int":
			names[v[0]] = Var(ex.G.name("lemma_"+v[0]), SInt)
		case "uint64":
			names[v[0]] = ex.G.FreshInt("lemma_"+v[0], types.Typ[types.Uint64])
		case "string":
			names[v[0]] = ex.G.FreshBytes("lemma_"+v[0], -1)
		case "bool":
			names[v[0]] = Var(ex.G.name("lemma_"+v[0]), SBool)
		default:
			var tt types.Type
			if pkg != nil {
				if tn := pkg.Type(v[1]); tn != nil {
					tt = tn.Type()
				}
			}
			if tt == nil {
				ex.Specs.Errors = append(ex.Specs.Errors, fmt.Sprintf("%s: lemma: unknown type %s", lm.Line, v[1]))
				return
			}
			names[v[0]] = ex.G.Fresh(tt, "lemma_"+v[0])
		}
	}
	var errs []string
	env := &Env{ex: ex, st: st, names: names, errs: &errs}
	saveEntry := ex.entry
	ex.entry = nil
	t := env.evalBool(lm.Body)
	ex.entry = saveEntry
	if t == nil {
		ex.Specs.Errors = append(ex.Specs.Errors, fmt.Sprintf("%s: lemma %q: %s", lm.Line, lm.Src, strings.Join(errs, "; ")))
		return
	}
	ob := &Obligation{Name: fmt.Sprintf("lemma/%s/%s", shortName(lm.Pkg), lm.Label), Kind: "lemma", Goal: t, Props: lm.Props, Note: lm.Line, Seq: lm.Seq}
	ex.record(st, ob)
}

var escapeMemo = map[*ssa.Alloc]bool{}

// allocEscapes: does the address of this local flow anywhere but loads, direct stores, field/index address
// computations and slices that are only converted to strings?
func allocEscapes(a *ssa.Alloc) bool {
	if v, ok := escapeMemo[a]; ok {
		return v
	}
	var esc func(v ssa.Value, depth int) bool
	esc = func(v ssa.Value, depth int) bool {
		if depth > 6 || v.Referrers() == nil {
			return true
		}
		for _, r := range *v.Referrers() {
			switch x := r.(type) {
			case *ssa.UnOp, *ssa.DebugRef:
			case *ssa.Store:
				if x.Val == v {
					return true
				}
			case *ssa.FieldAddr:
				if esc(x, depth+1) {
					return true
				}
			case *ssa.IndexAddr:
				if esc(x, depth+1) {
					return true
				}
			case *ssa.Slice:
				// slice of a local array: fine when it is only read (converted to string / ranged / len)
				if x.Referrers() == nil {
					return true
				}
				for _, r2 := range *x.Referrers() {
					switch y := r2.(type) {
					case *ssa.Convert, *ssa.DebugRef:
					case *ssa.Call:
						if b, ok := y.Call.Value.(*ssa.Builtin); !ok || (b.Name() != "len" && b.Name() != "cap") {
							return true
						}
					default:
						return true
					}
				}
			default:
				return true
			}
		}
		return false
	}
	r := esc(a, 0)
	escapeMemo[a] = r
	return r
}

// onlyNoEvent: the condition could not be evaluated only because lastArg/lastResult found no call.
func onlyNoEvent(errs []string) bool {
	// a missing event makes the sub-expression fail; errors reported afterwards are consequences of it
	return len(errs) > 0 && strings.HasPrefix(errs[0], "no-event:")
}

// noteHit counts how often the triggering pattern of a temporal clause matched an event (vacuity report: a precede or
// respond clause that never triggers in the function it is written on decides nothing there).
func (ex *Exec) noteHit(tc *Temporal) {
	if ex.TemporalHits == nil {
		ex.TemporalHits = map[*Temporal]int{}
	}
	ex.TemporalHits[tc]++
}

// AssumedClauses: postconditions declared `assumes` that this run relied upon.
var AssumedClauses = map[string]bool{}

// checkLoopVarCapture: discipline "goroutines-own-their-loop-variables". Under the per-loop variable semantics of the
// language version this module declares (go < 1.22), a closure started with `go` inside a loop that captures a variable
// which the loop assigns on every iteration reads whatever the variable holds when the goroutine finally runs. In SSA
// such a variable is an Alloc outside the loop body that the body stores to and the closure binds.
func (ex *Exec) checkLoopVarCapture(st *State, ev *Event, props []string) {
	g, ok := ev.Instr.(*ssa.Go)
	if !ok {
		return
	}
	mc, ok := g.Call.Value.(*ssa.MakeClosure)
	if !ok {
		return
	}
	fn := g.Parent()
	var inner *Loop
	for _, lp := range ex.loopInfo(fn).Loops {
		if lp.Body[g.Block()] && (inner == nil || len(lp.Body) < len(inner.Body)) {
			inner = lp
		}
	}
	if inner == nil {
		return
	}
	bad := ""
	for _, b := range mc.Bindings {
		a, ok := b.(*ssa.Alloc)
		if !ok || inner.Body[a.Block()] {
			continue
		}
		for blk := range inner.Body {
			for _, ins := range blk.Instrs {
				if s, ok := ins.(*ssa.Store); ok && s.Addr == ssa.Value(a) {
					bad = a.Comment
				}
			}
		}
	}
	fr0 := st.Frames[0]
	goal := TTrue
	if bad != "" {
		goal = TFalse
	}
	ob := &Obligation{Name: fmt.Sprintf("%s/discipline/goroutine-owns-its-loop-variables@%s#%d", ex.fnName(fr0.Fn), shortName(ex.fnName(fn)), ex.eventOrdinal(ev)), Kind: "ghost", Goal: goal, Props: props, Fn: fr0.Fn.String(),
		Note: "a goroutine started in a loop captures the loop variable " + bad + ", which the loop re-assigns (per-loop variable semantics before go 1.22)"}
	ob.Pos = ex.Prog.Fset.Position(g.Pos())
	ex.record(st, ob)
}

// ---------- discipline retained-buffers-are-not-recycled ----------
// A decoder declared with `retainsarg` does not copy byte fields: the decoded value shares memory with the buffer
// it was decoded from. After such a call the buffer must not be handed to a sync.Pool (the next Get overwrites
// it under the decoded value) and must not be written.

func (ex *Exec) retain(st *State, o *Object, by string) {
	if st.Retained == nil {
		st.Retained = map[*Object]string{}
	}
	st.Retained[o] = by
}

func (ex *Exec) retainedIn(st *State, v Value, depth int) (*Object, bool) {
	if depth > 3 {
		return nil, false
	}
	switch x := v.(type) {
	case *IfaceV:
		return ex.retainedIn(st, x.Val, depth+1)
	case *SliceV:
		if x.Obj != nil {
			if _, ok := st.Retained[x.Obj]; ok {
				return x.Obj, true
			}
		}
	case *PtrV:
		if x.Obj != nil {
			if _, ok := st.Retained[x.Obj]; ok {
				return x.Obj, true
			}
			return ex.retainedIn(st, ex.load(st, x, nil), depth+1)
		}
	}
	return nil, false
}

func (ex *Exec) checkRetained(st *State, ev *Event, props []string) {
	var hit *Object
	what := ""
	switch {
	case ev.Kind == "call" && eventMatches(ev, "(*Pool).Put"):
		for _, a := range ev.Args {
			if o, ok := ex.retainedIn(st, a, 0); ok {
				hit, what = o, "recycled-through-a-pool"
			}
		}
	case ev.Callee == "mem.store" && len(ev.Args) > 0:
		if p, ok := ev.Args[0].(*PtrV); ok && p.Obj != nil {
			if _, ok := st.Retained[p.Obj]; ok {
				hit, what = p.Obj, "written"
			}
		}
	}
	if hit == nil {
		return
	}
	fr0 := st.Frames[0]
	site := ""
	if ev.Instr != nil {
		site = fmt.Sprintf("@%s#%d", shortName(ex.fnName(ev.Instr.Parent())), ex.eventOrdinal(ev))
	}
	ob := &Obligation{Name: fmt.Sprintf("%s/ghost:retained/%s%s", ex.fnName(fr0.Fn), what, site), Kind: "ghost", Goal: TFalse, Props: props, Fn: fr0.Fn.String(),
		Note: "a buffer that a decoded value still shares memory with (" + st.Retained[hit] + ") is " + strings.ReplaceAll(what, "-", " ")}
	if ev.Instr != nil {
		ob.Pos = ex.Prog.Fset.Position(ev.Instr.Pos())
	}
	ex.record(st, ob)
}
