package main

import (
	"fmt"
	"go/types"
	"strings"

	"golang.org/x/tools/go/ssa"
)

// Ghost models of the two external stateful libraries the ledger is built on (trusted base A2, A3):
//
//   heimdalr/dag:  per *dag.DAG   Vtx  : (Array B Int)            id -> object id of the stored vertex, 0 = absent
//                                 Edge : (Array B (Array B Bool))
//   badger:        per *badger.DB Has  : (Array B Bool), Val : (Array B B)
//
// The ghost state lives in State.Ghost under "dag:<obj>:vtx" etc. and is created lazily (unconstrained).

type pushedFrame struct{}

const dagPkg = "github.com/heimdalr/dag"
const badgerPkg = "github.com/dgraph-io/badger/v4"

func (ex *Exec) ghostArr(st *State, key, sort, hint string) *Term {
	if v, ok := st.Ghost[key]; ok {
		return v.(*Term)
	}
	t := Var(ex.G.name(hint), sort)
	st.Ghost[key] = t
	if _, ok := st.PreGhost[key]; !ok {
		st.PreGhost[key] = t
	}
	return t
}

func objOf(v Value) *Object {
	if p, ok := v.(*PtrV); ok {
		return p.Obj
	}
	return nil
}

func (ex *Exec) dagVtx(st *State, d *Object) *Term {
	return ex.ghostArr(st, fmt.Sprintf("dag:%d:vtx", d.ID), ArrSort(SB, SInt), "dag_vtx")
}
func (ex *Exec) dagEdge(st *State, d *Object) *Term {
	return ex.ghostArr(st, fmt.Sprintf("dag:%d:edge", d.ID), ArrSort(SB, ArrSort(SB, SBool)), "dag_edge")
}
func (ex *Exec) dbHas(st *State, d *Object) *Term {
	return ex.ghostArr(st, fmt.Sprintf("db:%d:has", d.ID), ArrSort(SB, SBool), "db_has")
}
func (ex *Exec) dbVal(st *State, d *Object) *Term {
	return ex.ghostArr(st, fmt.Sprintf("db:%d:val", d.ID), ArrSort(SB, SB), "db_val")
}

// vertex objects: the integer identity of an object stored in a graph
func (ex *Exec) objIdent(o *Object) *Term {
	if o.Ident != nil {
		return o.Ident
	}
	o.Ident = IntC(int64(1000000 + o.ID))
	ex.identObj[o.Ident.Key()] = o
	return o.Ident
}

// dagObject returns the vertex object identified by the term idt (select(Vtx, key)).
func (ex *Exec) dagObject(st *State, idt *Term, vt types.Type) *Object {
	if o, ok := ex.identObj[idt.Key()]; ok {
		return o
	}
	if st.DagObjs == nil {
		st.DagObjs = map[string]*Object{}
	}
	if o, ok := st.DagObjs[idt.Key()]; ok {
		return o
	}
	o := ex.G.NewObject(vt, "dagvertex")
	o.Sym = true
	o.Ident = idt
	n := make(map[string]*Object, len(st.DagObjs)+1)
	for k, v := range st.DagObjs {
		n[k] = v
	}
	n[idt.Key()] = o
	st.DagObjs = n
	return o
}

// vertexType finds the repository's *accountant.Vertex type.
func (ex *Exec) vertexPtrType() types.Type {
	if ex.vtxType != nil {
		return ex.vtxType
	}
	for _, p := range ex.Prog.AllPackages() {
		if p.Pkg.Path() == modulePrefix+"/accountant" {
			if t := p.Type("Vertex"); t != nil {
				ex.vtxType = types.NewPointer(t.Type())
			}
		}
	}
	return ex.vtxType
}

func (ex *Exec) dagVertexIface(st *State, d *Object, key *Term) Value {
	idt := Select(ex.dagVtx(st, d), key)
	vt := ex.vertexPtrType()
	if vt == nil {
		return ex.G.Fresh(types.NewInterfaceType(nil, nil), "vertex")
	}
	o := ex.dagObject(st, idt, vt.(*types.Pointer).Elem())
	// graph invariant (an obligation at every AddVertexByID site, see "stored-under-own-hash"): a vertex is
	// stored under its own hash; and no vertex carries the all-zero hash, which the code uses as a sentinel
	// (A5: sha256 digests)
	if sv, ok := ex.objVal(st, o).(*StructV); ok {
		for i := 0; i < sv.T.NumFields(); i++ {
			if sv.T.Field(i).Name() == "Hash" {
				if ht, ok := sv.F[i].(*Term); ok && ht.Sort == SB {
					st.Assume(Eq(ht, key))
					st.Assume(Neq(ht, ex.G.BZero(IntC(32))))
				}
			}
			// graph invariant (obligation "only-canonical-amounts-admitted" at every AddVertexByID site):
			// the spice of a stored transaction is canonical
			if sv.T.Field(i).Name() == "Transaction" && !(ex.entryCt != nil && ex.entryCt.EstablishesGraphInv) {
				if tv, ok := sv.F[i].(*StructV); ok {
					for j := 0; j < tv.T.NumFields(); j++ {
						if tv.T.Field(j).Name() == "Spice" {
							if mv, ok := tv.F[j].(*StructV); ok && len(mv.F) == 2 {
								if supp, ok := mv.F[1].(*Term); ok && supp.Sort == SInt {
									st.Assume(Lt(supp, IntC(1000000000000000000)))
								}
							}
						}
					}
				}
			}
		}
	}
	ex.ifaceN++
	return &IfaceV{ID: IntC(20000000 + ex.ifaceN), Dyn: vt, Val: &PtrV{Nil: TFalse, Obj: o}}
}

func strArg(ex *Exec, st *State, v Value) *Term {
	if t, ok := v.(*Term); ok && t.Sort == SB {
		return t
	}
	if s, ok := v.(*SliceV); ok && isByte(s.Elem) {
		return ex.sliceBytes(st, s)
	}
	return ex.G.FreshBytes("key", -1)
}

func (ex *Exec) errValue(nonNil *Term, hint string) *IfaceV {
	// an error that is non-nil exactly when nonNil holds
	id := ex.G.FreshInt(hint, types.Typ[types.Int64])
	ex.G.facts[id.Name] = append(ex.G.facts[id.Name], Ge(id, IntC(0)), Iff(Gt(id, IntC(0)), nonNil))
	return &IfaceV{ID: id}
}

func init() {
	d := "(*" + dagPkg + ".DAG)."
	reg(dagPkg+".NewDAG", func(ex *Exec, st *State, fr *Frame, ins ssa.Instruction, args []Value) (Value, bool) {
		var t types.Type
		if c, ok := ins.(*ssa.Call); ok {
			t = c.Type().Underlying().(*types.Pointer).Elem()
		}
		o := ex.G.NewObject(t, "dag")
		st.Ghost[fmt.Sprintf("dag:%d:vtx", o.ID)] = ConstArr(ArrSort(SB, SInt), IntC(0))
		st.Ghost[fmt.Sprintf("dag:%d:edge", o.ID)] = ConstArr(ArrSort(SB, ArrSort(SB, SBool)), ConstArr(ArrSort(SB, SBool), TFalse))
		return &PtrV{Nil: TFalse, Obj: o}, true
	})
	reg(d+"AddVertexByID", func(ex *Exec, st *State, fr *Frame, ins ssa.Instruction, args []Value) (Value, bool) {
		dg := objOf(args[0])
		if dg == nil {
			return nil, false
		}
		key := strArg(ex, st, args[1])
		vtx := ex.dagVtx(st, dg)
		present := Neq(Select(vtx, key), IntC(0))
		iv, _ := args[2].(*IfaceV)
		// dynamic-type invariant of the graph: only non-nil *Vertex values are stored (obligation)
		okType := TFalse
		var ident *Term
		if iv != nil && iv.Dyn != nil && ex.vertexPtrType() != nil && types.Identical(iv.Dyn, ex.vertexPtrType()) {
			if p, ok := iv.Val.(*PtrV); ok && p.Obj != nil {
				okType = Not(p.Nil)
				ident = ex.objIdent(p.Obj)
			}
		}
		if ex.Cfg.Safety {
			ex.safety(st, "dag-stores-vertex", okType, ins, ins.(*ssa.Call).Call.Args[1])
		}
		if ident == nil {
			ident = ex.G.FreshInt("vident", types.Typ[types.Int64])
			ex.G.facts[ident.Name] = append(ex.G.facts[ident.Name], Gt(ident, IntC(0)))
		}
		// A2: fails iff the id (or the very same vertex value) is already present
		dupVal := Var(ex.G.name("dupvertex"), SBool)
		fail := Or(present, dupVal)
		err := ex.errValue(fail, "addvertex_err")
		st.Ghost[fmt.Sprintf("dag:%d:vtx", dg.ID)] = iteArr(fail, vtx, Store(vtx, key, ident))
		return err, true
	})
	reg(d+"GetVertex", func(ex *Exec, st *State, fr *Frame, ins ssa.Instruction, args []Value) (Value, bool) {
		dg := objOf(args[0])
		if dg == nil {
			return nil, false
		}
		key := strArg(ex, st, args[1])
		present := Neq(Select(ex.dagVtx(st, dg), key), IntC(0))
		switch st.Decide(present) {
		case 1:
			return &TupleV{E: []Value{ex.dagVertexIface(st, dg, key), &IfaceV{ID: IntC(0)}}}, true
		case -1:
			return &TupleV{E: []Value{&IfaceV{ID: IntC(0)}, ex.freshErr("idunknown", true)}}, true
		}
		other := ex.fork(st)
		other.Assume(Not(present))
		if !other.Dead {
			of := other.Top()
			res := &TupleV{E: []Value{&IfaceV{ID: IntC(0)}, ex.freshErr("idunknown", true)}}
			if c, ok := ins.(*ssa.Call); ok {
				of.Locals[c] = res
			}
			ex.event(other, &Event{Callee: d + "GetVertex", Args: args, Results: res.E, Instr: ins, Fn: of.Fn, Kind: "call"})
			ex.push(other)
		}
		st.Assume(present)
		return &TupleV{E: []Value{ex.dagVertexIface(st, dg, key), &IfaceV{ID: IntC(0)}}}, true
	})
	reg(d+"DeleteVertex", func(ex *Exec, st *State, fr *Frame, ins ssa.Instruction, args []Value) (Value, bool) {
		dg := objOf(args[0])
		if dg == nil {
			return nil, false
		}
		key := strArg(ex, st, args[1])
		vtx := ex.dagVtx(st, dg)
		present := Neq(Select(vtx, key), IntC(0))
		err := ex.errValue(Not(present), "delvertex_err")
		st.Ghost[fmt.Sprintf("dag:%d:vtx", dg.ID)] = Store(vtx, key, IntC(0))
		return err, true
	})
	reg(d+"AddEdge", func(ex *Exec, st *State, fr *Frame, ins ssa.Instruction, args []Value) (Value, bool) {
		dg := objOf(args[0])
		if dg == nil {
			return nil, false
		}
		src, dst := strArg(ex, st, args[1]), strArg(ex, st, args[2])
		vtx := ex.dagVtx(st, dg)
		edge := ex.dagEdge(st, dg)
		ps, pd := Neq(Select(vtx, src), IntC(0)), Neq(Select(vtx, dst), IntC(0))
		dup := Select(Select(edge, src), dst)
		mustFail := Or(Not(ps), Not(pd), dup, Eq(src, dst))
		loop := Var(ex.G.name("edgeloop"), SBool) // would close a cycle (A2: the library refuses)
		fail := Or(mustFail, loop)
		err := ex.errValue(fail, "addedge_err")
		ne := Store(edge, src, Store(Select(edge, src), dst, TTrue))
		st.Ghost[fmt.Sprintf("dag:%d:edge", dg.ID)] = iteArr(fail, edge, ne)
		return err, true
	})
	for _, m := range []string{"IsLeaf", "IsRoot"} {
		m := m
		reg(d+m, func(ex *Exec, st *State, fr *Frame, ins ssa.Instruction, args []Value) (Value, bool) {
			dg := objOf(args[0])
			if dg == nil {
				return nil, false
			}
			key := strArg(ex, st, args[1])
			present := Neq(Select(ex.dagVtx(st, dg), key), IntC(0))
			err := ex.errValue(Not(present), strings.ToLower(m)+"_err")
			b := Var(ex.G.name(strings.ToLower(m)), SBool)
			return &TupleV{E: []Value{b, err}}, true
		})
	}
	for _, m := range []string{"GetLeaves", "GetRoots", "GetVertices"} {
		m := m
		reg(d+m, func(ex *Exec, st *State, fr *Frame, ins ssa.Instruction, args []Value) (Value, bool) {
			dg := objOf(args[0])
			if dg == nil {
				return nil, false
			}
			var mt *types.Map
			if c, ok := ins.(*ssa.Call); ok {
				mt, _ = c.Type().Underlying().(*types.Map)
			}
			if mt == nil {
				return nil, false
			}
			o := ex.G.NewObject(mt, strings.ToLower(m))
			ms := ex.G.FreshMapState(mt, strings.ToLower(m))
			ms.Vals = nil
			ms.DagOf = dg
			st.Heap[o] = ms
			return &MapV{Nil: TFalse, Obj: o, T: mt}, true
		})
	}
	reg(d+"GetSize", func(ex *Exec, st *State, fr *Frame, ins ssa.Instruction, args []Value) (Value, bool) {
		l := ex.G.FreshInt("dagsize", types.Typ[types.Int])
		ex.G.facts[l.Name] = append(ex.G.facts[l.Name], Ge(l, IntC(0)), Le(l, IntB(Pow2(40))))
		return l, true
	})
	reg(d+"AncestorsWalker", func(ex *Exec, st *State, fr *Frame, ins ssa.Instruction, args []Value) (Value, bool) {
		dg := objOf(args[0])
		if dg == nil {
			return nil, false
		}
		key := strArg(ex, st, args[1])
		present := Neq(Select(ex.dagVtx(st, dg), key), IntC(0))
		mk := func(s *State, ok bool) *TupleV {
			if !ok {
				return &TupleV{E: []Value{&ChanV{Nil: TTrue}, &ChanV{Nil: TTrue}, ex.freshErr("walker_err", true)}}
			}
			ids := ex.G.NewObject(nil, "walker_ids")
			sig := ex.G.NewObject(nil, "walker_signal")
			ex.walkerOf[ids] = dg
			ex.walkerSig[sig] = ids
			if s.Open == nil {
				s.Open = map[*Object]bool{}
			} else {
				n := make(map[*Object]bool, len(s.Open)+1)
				for k, v := range s.Open {
					n[k] = v
				}
				s.Open = n
			}
			s.Open[ids] = true
			return &TupleV{E: []Value{&ChanV{Nil: TFalse, Obj: ids}, &ChanV{Nil: TFalse, Obj: sig}, &IfaceV{ID: IntC(0)}}}
		}
		switch st.Decide(present) {
		case 1:
			return mk(st, true), true
		case -1:
			return mk(st, false), true
		}
		other := ex.fork(st)
		other.Assume(Not(present))
		if !other.Dead {
			of := other.Top()
			res := mk(other, false)
			if c, ok := ins.(*ssa.Call); ok {
				of.Locals[c] = res
			}
			ex.event(other, &Event{Callee: d + "AncestorsWalker", Args: args, Results: res.E, Instr: ins, Fn: of.Fn, Kind: "call"})
			ex.push(other)
		}
		st.Assume(present)
		return mk(st, true), true
	})

	// ---------------- badger ----------------
	b := "(*" + badgerPkg + ".DB)."
	runTxn := func(update bool) func(ex *Exec, st *State, fr *Frame, ins ssa.Instruction, args []Value) (Value, bool) {
		return func(ex *Exec, st *State, fr *Frame, ins ssa.Instruction, args []Value) (Value, bool) {
			db := objOf(args[0])
			fv, ok := args[1].(*FuncV)
			if db == nil || !ok || fv.Fn == nil {
				return nil, false
			}
			has0, val0 := ex.dbHas(st, db), ex.dbVal(st, db)
			var tt types.Type
			if len(fv.Fn.Params) > 0 {
				tt = fv.Fn.Params[len(fv.Fn.Params)-1].Type().Underlying().(*types.Pointer).Elem()
			}
			txn := ex.G.NewObject(tt, "txn")
			ex.txnDB[txn] = db
			var dst ssa.Value
			if c, ok := ins.(*ssa.Call); ok {
				dst = c
			}
			ex.pushFrame(st, fv.Fn, fv.Bind, []Value{&PtrV{Nil: TFalse, Obj: txn}}, ins, dst)
			nf := st.Top()
			dbID := db.ID
			name := b + "View"
			if update {
				name = b + "Update"
			}
			nf.OnReturn = func(ex *Exec, s *State, res Value) Value {
				e, ok := res.(*IfaceV)
				if !ok {
					return res
				}
				hk, vk := fmt.Sprintf("db:%d:has", dbID), fmt.Sprintf("db:%d:val", dbID)
				if !update {
					// a read-only transaction never changes the store; it may still fail on its own (closed or
					// failing database) after the closure returned nil
					s.Ghost[hk], s.Ghost[vk] = has0, val0
					closureFail := Neq(e.ID, IntC(0))
					d := s.Decide(closureFail)
					if d == 1 {
						return res
					}
					verr := ex.errValue(Var(ex.G.name("view_fails"), SBool), "view_err")
					verr.Lib = true
					// the transaction's own failure is not the "key not found" answer of a lookup inside it
					if g := ex.lookupGlobalPath(badgerPkg, "ErrKeyNotFound"); g != nil {
						if nf, ok := ex.load(s, &PtrV{Nil: TFalse, Obj: ex.globalObj(g)}, nil).(*IfaceV); ok && nf.ID != nil {
							ex.G.facts[verr.ID.Name] = append(ex.G.facts[verr.ID.Name], Neq(verr.ID, nf.ID))
						}
					}
					if d == -1 {
						return verr
					}
					return &IfaceV{ID: Ite(closureFail, e.ID, verr.ID), JoinOf: e.JoinOf, Lib: e.Lib && len(e.JoinOf) == 0}
				}
				// A3: the closure's writes are committed iff it returned nil and the commit succeeded
				hasN, _ := s.Ghost[hk].(*Term)
				valN, _ := s.Ghost[vk].(*Term)
				closureFail := Neq(e.ID, IntC(0))
				switch s.Decide(closureFail) {
				case 1:
					s.Ghost[hk], s.Ghost[vk] = has0, val0
					return e
				case 0:
					// undecided: keep one symbolic state
					commitFail := Var(ex.G.name("commit_conflict"), SBool)
					fail := Or(closureFail, commitFail)
					s.Ghost[hk] = iteArr(fail, has0, hasN)
					s.Ghost[vk] = iteArr(fail, val0, valN)
					cid := ex.G.FreshInt("commit_err", types.Typ[types.Int64])
					ex.G.facts[cid.Name] = append(ex.G.facts[cid.Name], Gt(cid, IntC(0)))
					return &IfaceV{ID: Ite(closureFail, e.ID, Ite(commitFail, cid, IntC(0))), JoinOf: e.JoinOf, Lib: e.Lib && len(e.JoinOf) == 0}
				}
				// the closure returned nil: the commit either succeeds (nil) or fails with a library error
				commitFail := Var(ex.G.name("commit_conflict"), SBool)
				s.Ghost[hk] = iteArr(commitFail, has0, hasN)
				s.Ghost[vk] = iteArr(commitFail, val0, valN)
				cerr := ex.errValue(commitFail, "commit_err")
				cerr.Lib = true
				return cerr
			}
			nf.CalleeName = name
			nf.CallArgs = args
			return pushedFrame{}, true
		}
	}
	reg(b+"View", runTxn(false))
	reg(b+"Update", runTxn(true))
	t := "(*" + badgerPkg + ".Txn)."
	reg(t+"Get", func(ex *Exec, st *State, fr *Frame, ins ssa.Instruction, args []Value) (Value, bool) {
		txn := objOf(args[0])
		db := ex.txnDB[txn]
		if db == nil {
			return nil, false
		}
		key := strArg(ex, st, args[1])
		has := Select(ex.dbHas(st, db), key)
		var it types.Type
		if c, ok := ins.(*ssa.Call); ok {
			it = c.Type().(*types.Tuple).At(0).Type().Underlying().(*types.Pointer).Elem()
		}
		mk := func(s *State, found bool) *TupleV {
			if !found {
				g := ex.lookupGlobalPath(badgerPkg, "ErrKeyNotFound")
				var e Value = ex.freshErr("keynotfound", true)
				if g != nil {
					e = ex.load(s, &PtrV{Nil: TFalse, Obj: ex.globalObj(g)}, nil)
				}
				return &TupleV{E: []Value{&PtrV{Nil: TTrue}, e}}
			}
			item := ex.G.NewObject(it, "item")
			ex.itemOf[item] = itemRef{db: db, key: key}
			return &TupleV{E: []Value{&PtrV{Nil: TFalse, Obj: item}, &IfaceV{ID: IntC(0)}}}
		}
		switch st.Decide(has) {
		case 1:
			return mk(st, true), true
		case -1:
			return mk(st, false), true
		}
		other := ex.fork(st)
		other.Assume(Not(has))
		if !other.Dead {
			of := other.Top()
			res := mk(other, false)
			if c, ok := ins.(*ssa.Call); ok {
				of.Locals[c] = res
			}
			ex.event(other, &Event{Callee: t + "Get", Args: args, Results: res.E, Instr: ins, Fn: of.Fn, Kind: "call"})
			ex.push(other)
		}
		st.Assume(has)
		return mk(st, true), true
	})
	setKV := func(ex *Exec, st *State, db *Object, key, val *Term) {
		hk, vk := fmt.Sprintf("db:%d:has", db.ID), fmt.Sprintf("db:%d:val", db.ID)
		st.Ghost[hk] = Store(ex.dbHas(st, db), key, TTrue)
		st.Ghost[vk] = Store(ex.dbVal(st, db), key, val)
	}
	reg(badgerPkg+".NewEntry", func(ex *Exec, st *State, fr *Frame, ins ssa.Instruction, args []Value) (Value, bool) {
		var et types.Type
		if c, ok := ins.(*ssa.Call); ok {
			et = c.Type().Underlying().(*types.Pointer).Elem()
		}
		o := ex.G.NewObject(et, "entry")
		ex.entryKV[o] = [2]*Term{strArg(ex, st, args[0]), strArg(ex, st, args[1])}
		return &PtrV{Nil: TFalse, Obj: o}, true
	})
	reg(t+"SetEntry", func(ex *Exec, st *State, fr *Frame, ins ssa.Instruction, args []Value) (Value, bool) {
		db := ex.txnDB[objOf(args[0])]
		e := objOf(args[1])
		kv, ok := ex.entryKV[e]
		if db == nil || !ok {
			return nil, false
		}
		setKV(ex, st, db, kv[0], kv[1])
		return ex.freshErr("setentry_err", false), true
	})
	reg(t+"Set", func(ex *Exec, st *State, fr *Frame, ins ssa.Instruction, args []Value) (Value, bool) {
		db := ex.txnDB[objOf(args[0])]
		if db == nil {
			return nil, false
		}
		setKV(ex, st, db, strArg(ex, st, args[1]), strArg(ex, st, args[2]))
		return ex.freshErr("set_err", false), true
	})
	reg(t+"Delete", func(ex *Exec, st *State, fr *Frame, ins ssa.Instruction, args []Value) (Value, bool) {
		db := ex.txnDB[objOf(args[0])]
		if db == nil {
			return nil, false
		}
		hk := fmt.Sprintf("db:%d:has", db.ID)
		st.Ghost[hk] = Store(ex.dbHas(st, db), strArg(ex, st, args[1]), TFalse)
		return ex.freshErr("delete_err", false), true
	})
	// Iterators (A3): an iterator of a transaction visits stored entries in an unspecified order; each Item() is an
	// arbitrary entry that is present in the store (key k with Has[k]); Valid/ValidForPrefix are arbitrary booleans.
	// Nothing is assumed about completeness of the visit - clauses about "every visited entry" are per step.
	it := "(*" + badgerPkg + ".Iterator)."
	ex0iter := map[*Object]*Object{}
	reg(t+"NewIterator", func(ex *Exec, st *State, fr *Frame, ins ssa.Instruction, args []Value) (Value, bool) {
		db := ex.txnDB[objOf(args[0])]
		c, ok := ins.(*ssa.Call)
		if db == nil || !ok {
			return nil, false
		}
		o := ex.G.NewObject(c.Type().Underlying().(*types.Pointer).Elem(), "iterator")
		ex0iter[o] = db
		return &PtrV{Nil: TFalse, Obj: o}, true
	})
	for _, n := range []string{"Seek", "Next", "Close", "Rewind"} {
		reg(it+n, func(ex *Exec, st *State, fr *Frame, ins ssa.Instruction, args []Value) (Value, bool) {
			if _, ok := ex0iter[objOf(args[0])]; !ok {
				return nil, false
			}
			return &TupleV{}, true
		})
	}
	for _, n := range []string{"Valid", "ValidForPrefix"} {
		reg(it+n, func(ex *Exec, st *State, fr *Frame, ins ssa.Instruction, args []Value) (Value, bool) {
			if _, ok := ex0iter[objOf(args[0])]; !ok {
				return nil, false
			}
			return Var(ex.G.name("itervalid"), SBool), true
		})
	}
	reg(it+"Item", func(ex *Exec, st *State, fr *Frame, ins ssa.Instruction, args []Value) (Value, bool) {
		db, ok := ex0iter[objOf(args[0])]
		c, ok2 := ins.(*ssa.Call)
		if !ok || !ok2 {
			return nil, false
		}
		key := ex.G.FreshBytes("iterkey", -1)
		st.Assume(Select(ex.dbHas(st, db), key))
		item := ex.G.NewObject(c.Type().Underlying().(*types.Pointer).Elem(), "item")
		ex.itemOf[item] = itemRef{db: db, key: key}
		return &PtrV{Nil: TFalse, Obj: item}, true
	})
	for _, n := range []string{"Key", "KeyCopy"} {
		reg("(*"+badgerPkg+".Item)."+n, func(ex *Exec, st *State, fr *Frame, ins ssa.Instruction, args []Value) (Value, bool) {
			ref, ok := ex.itemOf[objOf(args[0])]
			if !ok {
				return nil, false
			}
			return ex.newByteSlice(st, ref.key, "itemkey"), true
		})
	}
	reg("(*"+badgerPkg+".Item).Value", func(ex *Exec, st *State, fr *Frame, ins ssa.Instruction, args []Value) (Value, bool) {
		ref, ok := ex.itemOf[objOf(args[0])]
		fv, ok2 := args[1].(*FuncV)
		if !ok || !ok2 || fv.Fn == nil {
			return nil, false
		}
		content := Select(ex.dbVal(st, ref.db), ref.key)
		sl := ex.newByteSlice(st, content, "itemvalue")
		var dst ssa.Value
		if c, ok := ins.(*ssa.Call); ok {
			dst = c
		}
		ex.pushFrame(st, fv.Fn, fv.Bind, []Value{sl}, ins, dst)
		return pushedFrame{}, true
	})
}

// ---------------- files (package os) ----------------
// Ghost model of the file system (assumption A15): one content per path. os.WriteFile replaces the content;
// os.ReadFile returns it; a file opened with os.OpenFile is written at a running offset that starts at 0 (or at the end
// with O_APPEND); O_TRUNC empties the file at open time, without it the bytes beyond what is written STAY.
// Every call may fail with an arbitrary error, in which case nothing changes. Permissions, directories, links,
// concurrent writers and short writes are not modelled.
type fileRef struct {
	path   *Term
	trunc  bool
	apnd   bool
	known  bool  // flags were a compile-time constant
	offset *Term // bytes written so far through this handle
}

var fileObjs = map[*Object]*fileRef{}

func (ex *Exec) fsHas(st *State) *Term {
	return ex.ghostArr(st, "fs:has", ArrSort(SB, SBool), "fs_has")
}
func (ex *Exec) fsVal(st *State) *Term { return ex.ghostArr(st, "fs:val", ArrSort(SB, SB), "fs_val") }

func init() {
	reg("os.WriteFile", func(ex *Exec, st *State, fr *Frame, ins ssa.Instruction, args []Value) (Value, bool) {
		name, data := strArg(ex, st, args[0]), strArg(ex, st, args[1])
		has, val := ex.fsHas(st), ex.fsVal(st)
		e := ex.freshErr("writefile_err", false)
		fail := Neq(e.ID, IntC(0))
		st.Ghost["fs:has"] = Ite(fail, has, Store(has, name, TTrue))
		st.Ghost["fs:val"] = Ite(fail, val, Store(val, name, data))
		return e, true
	})
	reg("os.ReadFile", func(ex *Exec, st *State, fr *Frame, ins ssa.Instruction, args []Value) (Value, bool) {
		name := strArg(ex, st, args[0])
		e := ex.freshErr("readfile_err", false)
		// a missing file cannot be read
		ex.G.facts[e.ID.Name] = append(ex.G.facts[e.ID.Name], Implies(Eq(e.ID, IntC(0)), Select(ex.fsHas(st), name)))
		sl := ex.newByteSlice(st, Select(ex.fsVal(st), name), "filecontent")
		return &TupleV{E: []Value{sl, e}}, true
	})
	reg("os.OpenFile", func(ex *Exec, st *State, fr *Frame, ins ssa.Instruction, args []Value) (Value, bool) {
		c, ok := ins.(*ssa.Call)
		if !ok {
			return nil, false
		}
		name := strArg(ex, st, args[0])
		ref := &fileRef{path: name, offset: IntC(0)}
		if fl, ok := args[1].(*Term); ok && fl.IsConstInt() && fl.I.IsInt64() {
			f := fl.I.Int64()
			ref.known, ref.trunc, ref.apnd = true, f&0x200 != 0, f&0x400 != 0
		}
		o := ex.G.NewObject(c.Type().(*types.Tuple).At(0).Type().Underlying().(*types.Pointer).Elem(), "file")
		fileObjs[o] = ref
		e := ex.freshErr("openfile_err", false)
		okT := Eq(e.ID, IntC(0))
		has, val := ex.fsHas(st), ex.fsVal(st)
		empty := ex.G.StrConst("")
		if ref.known && ref.trunc {
			st.Ghost["fs:has"] = Ite(okT, Store(has, name, TTrue), has)
			st.Ghost["fs:val"] = Ite(okT, Store(val, name, empty), val)
		} else if ref.known {
			// created empty when it did not exist (O_CREATE) - or the open failed
			st.Ghost["fs:val"] = Ite(And(okT, Not(Select(has, name))), Store(val, name, empty), val)
			st.Ghost["fs:has"] = Ite(okT, Store(has, name, TTrue), has)
		} else {
			st.Ghost["fs:has"] = Var(ex.G.name("fs_has_unknownflags"), ArrSort(SB, SBool))
			st.Ghost["fs:val"] = Var(ex.G.name("fs_val_unknownflags"), ArrSort(SB, SB))
		}
		return &TupleV{E: []Value{&PtrV{Nil: Not(okT), Obj: o}, e}}, true
	})
	reg("(*os.File).Write", func(ex *Exec, st *State, fr *Frame, ins ssa.Instruction, args []Value) (Value, bool) {
		ref := fileObjs[objOf(args[0])]
		if ref == nil {
			return nil, false
		}
		data := strArg(ex, st, args[1])
		lb := ex.G.BLen(data)
		e := ex.freshErr("filewrite_err", false)
		okT := Eq(e.ID, IntC(0))
		val := ex.fsVal(st)
		old := Select(val, ref.path)
		lo := ex.G.BLen(old)
		var nv *Term
		if !ref.known {
			nv = ex.G.FreshBytes("written_unknownflags", -1)
		} else if ref.apnd {
			nv = ex.G.BCat(old, data)
		} else {
			end := Add(ref.offset, lb)
			rest := Ite(Gt(lo, end), Sub(lo, end), IntC(0))
			nv = ex.G.BCat(ex.G.BCat(ex.G.BSub(old, IntC(0), ref.offset), data), ex.G.BSub(old, end, rest))
		}
		st.Ghost["fs:val"] = Ite(okT, Store(val, ref.path, nv), val)
		ref.offset = Ite(okT, Add(ref.offset, lb), ref.offset)
		return &TupleV{E: []Value{Ite(okT, lb, IntC(0)), e}}, true
	})
	for _, n := range []string{"(*os.File).Sync"} {
		reg(n, func(ex *Exec, st *State, fr *Frame, ins ssa.Instruction, args []Value) (Value, bool) {
			if fileObjs[objOf(args[0])] == nil {
				return nil, false
			}
			return ex.freshErr("filesync_err", false), true
		})
	}
}

type itemRef struct {
	db  *Object
	key *Term
}

func iteArr(c, a, b *Term) *Term {
	if a == nil || b == nil {
		if a != nil {
			return a
		}
		return b
	}
	return Ite(c, a, b)
}

func (ex *Exec) lookupGlobalPath(pkgPath, name string) *ssa.Global {
	for _, p := range ex.Prog.AllPackages() {
		if p.Pkg.Path() == pkgPath {
			if g, ok := p.Members[name].(*ssa.Global); ok {
				return g
			}
		}
	}
	return nil
}

// ghostPred returns the current extension of a ghost predicate; at the start of the verified function it is
// empty (nothing has been established in this activation yet).
func (ex *Exec) ghostPred(st *State, name string) *Term {
	key := "gp:" + name
	if v, ok := st.Ghost[key]; ok {
		return v.(*Term)
	}
	t := ConstArr(ArrSort(ex.Specs.GhostPreds[name], SBool), TFalse)
	st.Ghost[key] = t
	if _, ok := st.PreGhost[key]; !ok {
		st.PreGhost[key] = t
	}
	return t
}

// ghostVar returns the current value of a ghost integer; it is 0 at the start of the verified function.
func (ex *Exec) ghostVar(st *State, name string) *Term {
	key := "gv:" + name
	if v, ok := st.Ghost[key]; ok {
		return v.(*Term)
	}
	t := IntC(0)
	st.Ghost[key] = t
	if _, ok := st.PreGhost[key]; !ok {
		st.PreGhost[key] = t
	}
	return t
}

// ---------------- bigcache (A6) ----------------
// Get returns nil or ErrEntryNotFound only; Set always succeeds; Delete fails with ErrEntryNotFound iff the
// key is absent. No eviction between the calls of one operation.
const bigcachePkg = "github.com/allegro/bigcache"

// bcInterfere: in interference mode other goroutines may have changed the cache since the previous call.
func (ex *Exec) bcInterfere(st *State, d *Object) {
	if !ex.Cfg.Interference {
		return
	}
	st.Ghost[fmt.Sprintf("bc:%d:has", d.ID)] = Var(ex.G.name("bc_has_interfered"), ArrSort(SB, SBool))
	st.Ghost[fmt.Sprintf("bc:%d:val", d.ID)] = Var(ex.G.name("bc_val_interfered"), ArrSort(SB, SB))
}

func (ex *Exec) bcHas(st *State, d *Object) *Term {
	return ex.ghostArr(st, fmt.Sprintf("bc:%d:has", d.ID), ArrSort(SB, SBool), "bc_has")
}
func (ex *Exec) bcVal(st *State, d *Object) *Term {
	return ex.ghostArr(st, fmt.Sprintf("bc:%d:val", d.ID), ArrSort(SB, SB), "bc_val")
}

func init() {
	b := "(*" + bigcachePkg + ".BigCache)."
	notFound := func(ex *Exec, s *State) Value {
		if g := ex.lookupGlobalPath(bigcachePkg, "ErrEntryNotFound"); g != nil {
			return ex.load(s, &PtrV{Nil: TFalse, Obj: ex.globalObj(g)}, nil)
		}
		return ex.freshErr("entrynotfound", true)
	}
	reg(b+"Get", func(ex *Exec, st *State, fr *Frame, ins ssa.Instruction, args []Value) (Value, bool) {
		c := objOf(args[0])
		if c == nil {
			return nil, false
		}
		ex.bcInterfere(st, c)
		key := strArg(ex, st, args[1])
		has := Select(ex.bcHas(st, c), key)
		mk := func(s *State, found bool) *TupleV {
			if !found {
				return &TupleV{E: []Value{&SliceV{Nil: TTrue, Off: IntC(0), Len: IntC(0), Cap: IntC(0), Elem: types.Typ[types.Uint8]}, notFound(ex, s)}}
			}
			return &TupleV{E: []Value{ex.newByteSlice(s, Select(ex.bcVal(s, c), key), "cached"), &IfaceV{ID: IntC(0)}}}
		}
		switch st.Decide(has) {
		case 1:
			return mk(st, true), true
		case -1:
			return mk(st, false), true
		}
		other := ex.fork(st)
		other.Assume(Not(has))
		if !other.Dead {
			of := other.Top()
			res := mk(other, false)
			if cl, ok := ins.(*ssa.Call); ok {
				of.Locals[cl] = res
			}
			ex.event(other, &Event{Callee: b + "Get", Args: args, Results: res.E, Instr: ins, Fn: of.Fn, Kind: "call"})
			ex.push(other)
		}
		st.Assume(has)
		return mk(st, true), true
	})
	reg(b+"Set", func(ex *Exec, st *State, fr *Frame, ins ssa.Instruction, args []Value) (Value, bool) {
		c := objOf(args[0])
		if c == nil {
			return nil, false
		}
		ex.bcInterfere(st, c)
		key, val := strArg(ex, st, args[1]), strArg(ex, st, args[2])
		st.Ghost[fmt.Sprintf("bc:%d:has", c.ID)] = Store(ex.bcHas(st, c), key, TTrue)
		st.Ghost[fmt.Sprintf("bc:%d:val", c.ID)] = Store(ex.bcVal(st, c), key, val)
		return &IfaceV{ID: IntC(0)}, true
	})
	reg(b+"Delete", func(ex *Exec, st *State, fr *Frame, ins ssa.Instruction, args []Value) (Value, bool) {
		c := objOf(args[0])
		if c == nil {
			return nil, false
		}
		ex.bcInterfere(st, c)
		key := strArg(ex, st, args[1])
		has := Select(ex.bcHas(st, c), key)
		st.Ghost[fmt.Sprintf("bc:%d:has", c.ID)] = Store(ex.bcHas(st, c), key, TFalse)
		nf, _ := notFound(ex, st).(*IfaceV)
		if nf == nil {
			return ex.errValue(Not(has), "delete_err"), true
		}
		return &IfaceV{ID: Ite(has, IntC(0), nf.ID)}, true
	})
}
