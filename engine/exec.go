package main

import (
	"fmt"
	"go/constant"
	"go/token"
	"go/types"
	"math/big"
	"os"
	"strings"

	"golang.org/x/tools/go/ssa"
)

type Config struct {
	MaxPaths     int
	MaxDepth     int // inline depth
	MaxUnroll    int
	Safety       bool // emit implicit safety obligations
	SafetyProps  []string
	NonNilLazy   bool
	Verbose      bool
	NoContracts  map[string]bool // callees to inline even though they have contracts
	ForceModular map[string]bool // callees summarised by havoc + contract even without ensures/assigns
	Interference bool            // shared stores (bigcache) may be changed by other goroutines between two calls
	OnlyContract map[string]bool
}

type Exec struct {
	UsedContracts map[string]*Contract // contracts applied at call sites (modular use) in this run
	TemporalHits  map[*Temporal]int
	Prog          *ssa.Program
	G             *Gen
	Specs         *SpecDB
	Cfg           Config
	Obls          []*Obligation
	work          []*State
	loops         map[*ssa.Function]*LoopInfo
	entry         *ssa.Function
	entryCt       *Contract
	paths         int
	pathCap       bool
	globals       map[*ssa.Global]*Object
	textOrd       map[*ssa.Function]map[ssa.Instruction]string
	stateN        int
	Notes         map[string]int
	endStates     int
	returnCovers  map[*ssa.Function]int // thorough tier: returning paths already turned into cover obligations
	Unsupported   map[string]int
	curNonNil     bool
	seq           int
	identObj      map[string]*Object
	vtxType       types.Type
	walkerOf      map[*Object]*Object
	walkerSig     map[*Object]*Object
	txnDB         map[*Object]*Object
	itemOf        map[*Object]itemRef
	entryKV       map[*Object][2]*Term
	repoSentinel  map[int64]bool
	sentinelPkg   map[int64]string // module of an external package-level error variable
	ifaceN        int64
	subCollect    *[]Value
}

func NewExec(prog *ssa.Program, specs *SpecDB, cfg Config) *Exec {
	if cfg.MaxPaths == 0 {
		cfg.MaxPaths = 20000
	}
	if cfg.MaxDepth == 0 {
		cfg.MaxDepth = 6
	}
	if cfg.MaxUnroll == 0 {
		cfg.MaxUnroll = 40
	}
	return &Exec{Prog: prog, G: NewGen(), Specs: specs, Cfg: cfg, loops: map[*ssa.Function]*LoopInfo{},
		globals: map[*ssa.Global]*Object{}, textOrd: map[*ssa.Function]map[ssa.Instruction]string{},
		Notes: map[string]int{}, Unsupported: map[string]int{}, identObj: map[string]*Object{}, walkerOf: map[*Object]*Object{}, walkerSig: map[*Object]*Object{},
		txnDB: map[*Object]*Object{}, itemOf: map[*Object]itemRef{}, entryKV: map[*Object][2]*Term{}, repoSentinel: map[int64]bool{}, sentinelPkg: map[int64]string{}}
}

func (ex *Exec) isInRepo(f *ssa.Function) bool {
	if f == nil {
		return false
	}
	p := f.Pkg
	if p == nil && f.Parent() != nil {
		return ex.isInRepo(f.Parent())
	}
	if p == nil {
		// methods of instantiated generics / wrappers
		if f.Origin() != nil {
			return ex.isInRepo(f.Origin())
		}
		return false
	}
	return strings.HasPrefix(p.Pkg.Path(), modulePrefix)
}

func (ex *Exec) useContract(name string) bool {
	if ex.Cfg.NoContracts != nil && ex.Cfg.NoContracts[name] {
		return false
	}
	// a contract that only states entry preconditions (well-formedness of the receiver) is not a summary:
	// such callees are inlined
	if ex.Cfg.ForceModular != nil && ex.Cfg.ForceModular[name] {
		return true
	}
	if ex.Specs != nil {
		if ct := ex.Specs.Contracts[name]; ct != nil && (ct.Inline || len(ct.Ensures) == 0 && !ct.HasAssign) {
			return false
		}
	}
	return true
}

func (ex *Exec) note(st *State, msg string) {
	ex.Notes[msg]++
	if st != nil {
		st.Notes = append(st.Notes, msg)
	}
}

func (ex *Exec) loopInfo(fn *ssa.Function) *LoopInfo {
	li, ok := ex.loops[fn]
	if !ok {
		li = computeLoops(fn)
		ex.loops[fn] = li
	}
	return li
}

// ---------- evaluation of SSA operands ----------

func (ex *Exec) constVal(c *ssa.Const) Value {
	t := c.Type()
	if c.Value == nil {
		return ex.G.Zero(t)
	}
	switch c.Value.Kind() {
	case constant.Bool:
		return BoolC(constant.BoolVal(c.Value))
	case constant.String:
		return ex.G.StrConst(constant.StringVal(c.Value))
	case constant.Int:
		if isFloat(t) {
			return App("floatc_"+sanitize(c.Value.ExactString()), "T_float")
		}
		bi, ok := new(big.Int).SetString(c.Value.ExactString(), 10)
		if !ok {
			bi = big.NewInt(0)
		}
		return IntB(bi)
	case constant.Float, constant.Complex:
		if isInteger(t) {
			f, _ := constant.Float64Val(c.Value)
			return IntC(int64(f))
		}
		return App("floatc_"+sanitize(c.Value.ExactString()), "T_float")
	}
	return ex.G.Zero(t)
}

func (ex *Exec) globalObj(g *ssa.Global) *Object {
	o, ok := ex.globals[g]
	if ok {
		return o
	}
	et := g.Type().(*types.Pointer).Elem()
	o = ex.G.NewObject(et, g.String())
	o.Global = g
	o.Sym = true
	if types.IsInterface(et) && isErrorType(et) {
		// package-level error variables: assumed initialised once with distinct non-nil errors
		id := int64(len(ex.G.errIDs) + 1000)
		ex.G.errIDs[g.String()] = id
		if g.Pkg != nil && strings.HasPrefix(g.Pkg.Pkg.Path(), modulePrefix) {
			ex.repoSentinel[id] = true
		} else if g.Pkg != nil {
			ex.sentinelPkg[id] = moduleOf(g.Pkg.Pkg.Path() + ".x")
		}
		o.Const = true
		o.initFn = func() Value { return &IfaceV{ID: IntC(id)} }
	} else {
		hint := sanitize(g.Name())
		o.initFn = func() Value { return ex.G.Fresh(et, "glob_"+hint) }
	}
	ex.globals[g] = o
	return o
}

func isErrorType(t types.Type) bool {
	n, ok := t.(*types.Named)
	return ok && n.Obj().Pkg() == nil && n.Obj().Name() == "error"
}

func (ex *Exec) eval(fr *Frame, v ssa.Value) Value {
	switch x := v.(type) {
	case *ssa.Const:
		return ex.constVal(x)
	case *ssa.Global:
		return &PtrV{Nil: TFalse, Obj: ex.globalObj(x)}
	case *ssa.Function:
		return &FuncV{Fn: x, Nil: TFalse}
	case *ssa.FreeVar:
		for i, fv := range fr.Fn.FreeVars {
			if fv == x {
				if i < len(fr.Bind) {
					return fr.Bind[i]
				}
			}
		}
		return ex.G.Fresh(x.Type(), "freevar_"+x.Name())
	case *ssa.Builtin:
		return x
	}
	if val, ok := fr.Locals[v]; ok {
		return val
	}
	// value not computed on this path (should not happen)
	ex.Unsupported["undefined-ssa-value"]++
	nv := ex.G.Fresh(v.Type(), "undef_"+v.Name())
	fr.Locals[v] = nv
	return nv
}

// ---------- heap access ----------

func (ex *Exec) objVal(st *State, o *Object) Value {
	if v, ok := st.Heap[o]; ok {
		return v
	}
	var v Value
	if o.initFn != nil {
		v = o.initFn()
	} else if o.init != nil {
		v = o.init
	} else {
		v = ex.G.Fresh(o.Typ, "obj_"+sanitize(o.Name))
	}
	st.Heap[o] = v
	if _, ok := st.PreHeap[o]; !ok {
		if st.Depth == 0 || o.Const { // no havoc happened yet: the lazily created content is the entry content
			st.PreHeap[o] = v
		} else {
			st.PreHeap[o] = ex.G.Fresh(o.Typ, "old_"+sanitize(o.Name))
		}
	}
	return v
}

func (ex *Exec) readPath(st *State, v Value, path []PathEl, t types.Type) Value {
	for i, pe := range path {
		switch cur := v.(type) {
		case *StructV:
			v = cur.F[pe.Field]
		case *ArrV:
			if pe.Idx == nil {
				panic("readPath: field on array")
			}
			if pe.SubN > 0 {
				// a view of SubN bytes of a small (cell-wise) byte array, as one byte string
				if pe.Idx.IsConstInt() && pe.Idx.I.IsInt64() {
					k := int(pe.Idx.I.Int64())
					if k >= 0 && k+pe.SubN <= len(cur.E) {
						v = ex.bytesOfCells(cur.E[k : k+pe.SubN])
						continue
					}
				}
				v = ex.G.FreshBytes("cells", pe.SubN)
				continue
			}
			if pe.Idx.IsConstInt() {
				k := int(pe.Idx.I.Int64())
				if k < 0 || k >= len(cur.E) {
					return ex.G.Fresh(cur.Elem, "oob")
				}
				v = cur.E[k]
			} else {
				// symbolic index into a concrete array: ite chain for scalars
				if len(cur.E) > 0 {
					if _, ok := cur.E[0].(*Term); ok {
						res := cur.E[len(cur.E)-1].(*Term)
						for k := len(cur.E) - 2; k >= 0; k-- {
							res = Ite(Eq(pe.Idx, IntC(int64(k))), cur.E[k].(*Term), res)
						}
						v = res
						continue
					}
				}
				v = ex.G.Fresh(cur.Elem, "symidx")
			}
		case *SymSeq:
			k := pe.Idx.Key()
			if kv, ok := cur.Known[k]; ok {
				v = kv
			} else {
				save := ex.G.nonNil
				ex.G.nonNil = true // A9: elements of repeated message fields are non-nil
				nv := ex.G.Fresh(cur.Elem, fmt.Sprintf("%s_el", cur.Name))
				ex.G.nonNil = save
				if cur.Known == nil {
					cur.Known = map[string]Value{}
				}
				cur.Known[k] = nv
				v = nv
			}
		case *Term:
			if cur.Sort != SB {
				// opaque value: reading inside it yields unknown
				return ex.G.Fresh(typeAtPath(t, path), "opaque_part")
			}
			if pe.SubN > 0 {
				v = ex.G.BSub(cur, pe.Idx, IntC(int64(pe.SubN)))
			} else if pe.Idx != nil {
				v = ex.G.BAt(cur, pe.Idx)
			} else {
				panic("readPath: field of byte string")
			}
		default:
			_ = i
			return ex.G.Fresh(typeAtPath(t, path), "unk_part")
		}
	}
	return v
}

func typeAtPath(t types.Type, path []PathEl) types.Type {
	for _, pe := range path {
		switch u := t.Underlying().(type) {
		case *types.Struct:
			t = u.Field(pe.Field).Type()
		case *types.Array:
			if pe.SubN > 0 {
				t = types.NewArray(u.Elem(), int64(pe.SubN))
			} else {
				t = u.Elem()
			}
		case *types.Slice:
			if pe.SubN > 0 {
				t = types.NewArray(u.Elem(), int64(pe.SubN))
			} else {
				t = u.Elem()
			}
		default:
			return t
		}
	}
	return t
}

func (ex *Exec) writePath(st *State, v Value, path []PathEl, nv Value, t types.Type) Value {
	if len(path) == 0 {
		return nv
	}
	pe := path[0]
	switch cur := v.(type) {
	case *StructV:
		n := &StructV{T: cur.T, F: append([]Value(nil), cur.F...)}
		n.F[pe.Field] = ex.writePath(st, cur.F[pe.Field], path[1:], nv, cur.T.Field(pe.Field).Type())
		return n
	case *ArrV:
		n := &ArrV{Elem: cur.Elem, E: append([]Value(nil), cur.E...)}
		if pe.SubN > 0 {
			// a byte string written over SubN cells of a small byte array
			nt, isT := nv.(*Term)
			if pe.Idx.IsConstInt() && pe.Idx.I.IsInt64() && isT && nt.Sort == SB && len(path) == 1 {
				k := int(pe.Idx.I.Int64())
				if k >= 0 && k+pe.SubN <= len(n.E) {
					for j := 0; j < pe.SubN; j++ {
						n.E[k+j] = ex.G.BAt(nt, IntC(int64(j)))
					}
					return n
				}
			}
			for k := range n.E {
				n.E[k] = ex.G.Fresh(cur.Elem, "cellstore")
			}
			return n
		}
		if pe.Idx.IsConstInt() {
			k := int(pe.Idx.I.Int64())
			if k >= 0 && k < len(n.E) {
				n.E[k] = ex.writePath(st, cur.E[k], path[1:], nv, cur.Elem)
			}
			return n
		}
		for k := range n.E {
			if len(path) == 1 {
				if ot, ok := cur.E[k].(*Term); ok {
					if nt, ok2 := nv.(*Term); ok2 {
						n.E[k] = Ite(Eq(pe.Idx, IntC(int64(k))), nt, ot)
						continue
					}
				}
			}
			n.E[k] = ex.G.Fresh(cur.Elem, "symstore")
		}
		return n
	case *SymSeq:
		n := &SymSeq{ID: cur.ID, Elem: cur.Elem, Name: cur.Name, Known: map[string]Value{}}
		for k, kv := range cur.Known {
			// keep entries at provably different indices only
			if pe.Idx.IsConstInt() && isIntLit(k) && k != pe.Idx.Key() {
				n.Known[k] = kv
			}
		}
		old, ok := cur.Known[pe.Idx.Key()]
		if !ok {
			old = ex.G.Fresh(cur.Elem, cur.Name+"_el")
		}
		n.Known[pe.Idx.Key()] = ex.writePath(st, old, path[1:], nv, cur.Elem)
		return n
	case *Term:
		if cur.Sort == SB {
			if pe.SubN > 0 {
				total := ex.G.BLen(cur)
				end := Add(pe.Idx, IntC(int64(pe.SubN)))
				return ex.G.BCat(ex.G.BCat(ex.G.BSub(cur, IntC(0), pe.Idx), nv.(*Term)), ex.G.BSub(cur, end, Sub(total, end)))
			}
			if nt, ok := nv.(*Term); ok && len(path) == 1 {
				r := App("bupd", SB, cur, pe.Idx, nt)
				return r
			}
		}
		ex.note(st, "write into opaque value")
		return ex.G.Fresh(t, "opaque_written")
	}
	ex.note(st, "write into unknown value")
	return ex.G.Fresh(t, "unk_written")
}

func isIntLit(s string) bool { return strings.HasPrefix(s, "int|") }

func (ex *Exec) load(st *State, p *PtrV, t types.Type) Value {
	if p.Obj == nil {
		return ex.G.Fresh(t, "nilload")
	}
	root := ex.objVal(st, p.Obj)
	return ex.readPath(st, root, p.Path, p.Obj.Typ)
}

func (ex *Exec) store(st *State, p *PtrV, v Value) {
	if p.Obj == nil {
		return
	}
	root := ex.objVal(st, p.Obj)
	st.Heap[p.Obj] = ex.writePath(st, root, p.Path, v, p.Obj.Typ)
	ex.markWritten(st, p.Obj)
}

func (ex *Exec) markWritten(st *State, o *Object) {
	if o == nil || !o.Sym {
		return
	}
	if st.Written == nil {
		st.Written = map[*Object]bool{}
	}
	st.Written[o] = true
}

// ---------- obligations ----------

func (ex *Exec) oblige(st *State, kind, name string, goal *Term, ins ssa.Instruction, props []string) {
	ob := &Obligation{Name: name, Kind: kind, Goal: goal, Props: props}
	if ex.entry != nil {
		ob.Entry = ex.entry.String()
	}
	if ins != nil {
		ob.Pos = ex.Prog.Fset.Position(ins.Pos())
		if ins.Parent() != nil {
			ob.Fn = ins.Parent().String()
		}
	}
	if len(st.Notes) > 0 {
		ob.Imprecise = true
		ob.Note = st.Notes[len(st.Notes)-1]
	}
	switch st.Decide(goal) {
	case 1:
		ob.Result = "folded"
	default:
		ob.PC = append([]*Term(nil), st.PC...)
		ob.Snap = ex.snapshot(st, false)
	}
	ex.Obls = append(ex.Obls, ob)
}

// safety obligation: record, then continue under the assumption that it held.
func (ex *Exec) safety(st *State, kind string, goal *Term, ins ssa.Instruction, operand ssa.Value) {
	if goal.IsTrue() {
		return
	}
	if ex.Cfg.Safety {
		name := fmt.Sprintf("%s/safety:%s/%s", ex.fnName(ins.Parent()), kind, ex.operandText(ins, operand))
		ex.oblige(st, "safety:"+kind, name, goal, ins, ex.Cfg.SafetyProps)
	}
	st.Assume(goal)
}

func (ex *Exec) fnName(f *ssa.Function) string {
	if f == nil {
		return "?"
	}
	s := f.String()
	return strings.ReplaceAll(s, modulePrefix+"/", "")
}

// operandText renders a stable, source-like text for an operand and adds an ordinal among identical texts.
func (ex *Exec) operandText(ins ssa.Instruction, v ssa.Value) string {
	fn := ins.Parent()
	m, ok := ex.textOrd[fn]
	if !ok {
		m = map[ssa.Instruction]string{}
		ex.textOrd[fn] = m
	}
	if s, ok := m[ins]; ok {
		return s
	}
	// compute ordinals for all instructions of fn with this text lazily
	txt := ssaText(v, 0)
	cnt := 0
	for _, b := range fn.Blocks {
		for _, i2 := range b.Instrs {
			if i2 == ins {
				s := fmt.Sprintf("%s#%d", txt, cnt)
				m[ins] = s
				return s
			}
			if op := safetyOperand(i2); op != nil && sameKindInstr(i2, ins) && ssaText(op, 0) == txt {
				cnt++
			}
		}
	}
	s := fmt.Sprintf("%s#%d", txt, cnt)
	m[ins] = s
	return s
}

func sameKindInstr(a, b ssa.Instruction) bool {
	return fmt.Sprintf("%T", a) == fmt.Sprintf("%T", b)
}

func safetyOperand(ins ssa.Instruction) ssa.Value {
	switch v := ins.(type) {
	case *ssa.FieldAddr:
		return v.X
	case *ssa.IndexAddr:
		return v.X
	case *ssa.UnOp:
		return v.X
	case *ssa.Store:
		return v.Addr
	case *ssa.Slice:
		return v.X
	case *ssa.SliceToArrayPointer:
		return v.X
	case *ssa.TypeAssert:
		return v.X
	case *ssa.BinOp:
		return v.Y
	case *ssa.Send:
		return v.Chan
	case *ssa.MapUpdate:
		return v.Map
	case *ssa.Call:
		if v.Call.IsInvoke() {
			return v.Call.Value
		}
		if len(v.Call.Args) > 0 {
			return v.Call.Args[0]
		}
	}
	return nil
}

func ssaText(v ssa.Value, d int) string {
	if d > 8 {
		return "…"
	}
	switch x := v.(type) {
	case *ssa.Parameter:
		return x.Name()
	case *ssa.FreeVar:
		return x.Name()
	case *ssa.Global:
		return x.Name()
	case *ssa.Const:
		if x.Value == nil {
			return "nil"
		}
		return x.Value.String()
	case *ssa.FieldAddr:
		st := x.X.Type().Underlying().(*types.Pointer).Elem().Underlying().(*types.Struct)
		return ssaText(x.X, d+1) + "." + st.Field(x.Field).Name()
	case *ssa.Field:
		st := x.X.Type().Underlying().(*types.Struct)
		return ssaText(x.X, d+1) + "." + st.Field(x.Field).Name()
	case *ssa.UnOp:
		if x.Op == token.MUL {
			return ssaText(x.X, d+1)
		}
		return x.Op.String() + ssaText(x.X, d+1)
	case *ssa.Alloc:
		if x.Comment != "" {
			return x.Comment
		}
		return "new"
	case *ssa.Phi:
		if x.Comment != "" {
			return x.Comment
		}
		return "phi"
	case *ssa.IndexAddr:
		return ssaText(x.X, d+1) + "[]"
	case *ssa.Index:
		return ssaText(x.X, d+1) + "[]"
	case *ssa.Extract:
		return fmt.Sprintf("%s.%d", ssaText(x.Tuple, d+1), x.Index)
	case *ssa.Call:
		if x.Call.IsInvoke() {
			return ssaText(x.Call.Value, d+1) + "." + x.Call.Method.Name() + "()"
		}
		if f, ok := x.Call.Value.(*ssa.Function); ok {
			return f.Name() + "()"
		}
		if b, ok := x.Call.Value.(*ssa.Builtin); ok {
			return b.Name() + "()"
		}
		return "call()"
	case *ssa.Slice:
		return ssaText(x.X, d+1) + "[:]"
	case *ssa.Convert:
		return ssaText(x.X, d+1)
	case *ssa.ChangeType:
		return ssaText(x.X, d+1)
	case *ssa.MakeInterface:
		return ssaText(x.X, d+1)
	case *ssa.TypeAssert:
		return ssaText(x.X, d+1) + ".(T)"
	case *ssa.Lookup:
		return ssaText(x.X, d+1) + "[k]"
	case *ssa.SliceToArrayPointer:
		return ssaText(x.X, d+1)
	case *ssa.BinOp:
		return ssaText(x.X, d+1) + x.Op.String() + ssaText(x.Y, d+1)
	case *ssa.Function:
		return x.Name()
	case *ssa.MakeSlice:
		return "make"
	case *ssa.Next:
		return "next"
	}
	return "tmp"
}

// ---------- running ----------

func (ex *Exec) fork(st *State) *State {
	n := st.Clone()
	ex.stateN++
	n.ID = ex.stateN
	return n
}

func (ex *Exec) push(st *State) {
	if st.Dead {
		return
	}
	ex.work = append(ex.work, st)
}

func (ex *Exec) runAll() {
	for len(ex.work) > 0 {
		st := ex.work[len(ex.work)-1]
		ex.work = ex.work[:len(ex.work)-1]
		ex.paths++
		if ex.paths > ex.Cfg.MaxPaths {
			ex.pathCap = true
			ex.work = nil
			return
		}
		ex.runPath(st)
	}
}

func (ex *Exec) runPath(st *State) {
	steps := 0
	if os.Getenv("GOCV_TRACE") != "" {
		defer func() {
			if len(st.Frames) > 0 {
				fr := st.Top()
				pos := ""
				if fr.Idx > 0 && fr.Idx <= len(fr.Block.Instrs) {
					pos = ex.Prog.Fset.Position(fr.Block.Instrs[fr.Idx-1].Pos()).String()
				}
				fmt.Fprintf(os.Stderr, "path %d ends dead in %s block %d idx %d %s\n", st.ID, fr.Fn.Name(), fr.Block.Index, fr.Idx, pos)
				if os.Getenv("GOCV_TRACE") == "2" {
					for _, c := range st.PC {
						fmt.Fprintf(os.Stderr, "    pc: %s\n", c)
					}
				}
			} else {
				fmt.Fprintf(os.Stderr, "path %d returned at %s\n", st.ID, st.LastReturn)
			}
		}()
	}
	for !st.Dead && len(st.Frames) > 0 {
		steps++
		if steps > 200000 {
			ex.note(st, "step limit")
			ex.Unsupported["step-limit"]++
			return
		}
		ex.step(st)
	}
}

func (ex *Exec) jump(st *State, to *ssa.BasicBlock) {
	fr := st.Top()
	from := fr.Block
	ex.onEdge(st, fr, from, to)
	fr.Prev = from
	fr.Block = to
	fr.Idx = 0
	li := ex.loopInfo(fr.Fn)
	lp := li.ByHeader[to]
	if lp == nil {
		return
	}
	back := from != nil && lp.Body[from]
	if !back {
		fr.Cut[to] = false
		fr.LoopHit[to] = 0
	}
	if fr.Cut[to] && back {
		// end of the arbitrary iteration: invariant must be re-established
		ex.phis(st, fr)
		ex.checkInvariants(st, fr, lp, "preserved")
		// response obligations triggered inside this iteration must be met inside it
		if len(st.Frames) > 0 && ex.entryCt != nil {
			fr0 := st.Frames[0]
			ex.checkRespondFrom(st, fr0, ex.entryCt, ex.freeVarNames(st, fr0, ex.paramNames(fr0.Fn, fr0.Args, nil, false)), st.CutEvents, true)
		}
		st.Dead = true
		return
	}
	// evaluate phis for this arrival
	ex.phis(st, fr)
	if fr.LoopHit[to] < ex.Cfg.MaxUnroll && ex.headerIsConcrete(st, fr, lp) {
		fr.LoopHit[to]++
		return
	}
	if !back && ex.Specs != nil {
		if ct := ex.Specs.Contracts[fr.Fn.String()]; ct != nil && ct.Peel[baselineLoopOrdinal(fr.Fn, lp.Ordinal)] {
			// peeled first iteration: executed like straight-line code; the cut happens when the back edge arrives
			if fr.Peeled == nil {
				fr.Peeled = map[*ssa.BasicBlock]bool{}
			}
			fr.Peeled[to] = true
			return
		}
	}
	if back && fr.Peeled[to] {
		fr.Peeled[to] = false
	}
	// cut the loop here
	ex.checkInvariants(st, fr, lp, "entry")
	st.CutEvents = len(st.Events)
	ex.havocLoop(st, fr, lp)
	ex.assumeInvariants(st, fr, lp)
	fr.Cut[to] = true
}

// phis evaluates the phi nodes of the current block w.r.t. fr.Prev and advances Idx past them.
func (ex *Exec) phis(st *State, fr *Frame) {
	blk := fr.Block
	predIdx := -1
	for i, p := range blk.Preds {
		if p == fr.Prev {
			predIdx = i
			break
		}
	}
	vals := map[ssa.Value]Value{}
	n := 0
	for _, ins := range blk.Instrs {
		phi, ok := ins.(*ssa.Phi)
		if !ok {
			break
		}
		n++
		if predIdx >= 0 {
			vals[phi] = ex.eval(fr, phi.Edges[predIdx])
		}
	}
	for k, v := range vals {
		fr.Locals[k] = v
	}
	fr.Idx = n
}

// headerIsConcrete runs the header block on a scratch copy to see whether its exit test folds.
func (ex *Exec) headerIsConcrete(st *State, fr *Frame, lp *Loop) bool {
	blk := fr.Block
	term := blk.Instrs[len(blk.Instrs)-1]
	iff, ok := term.(*ssa.If)
	if !ok {
		return false
	}
	// one successor must leave the loop
	if lp.Body[blk.Succs[0]] && lp.Body[blk.Succs[1]] {
		return false
	}
	// the header may only contain side-effect-free instructions for the trial
	for _, ins := range blk.Instrs[fr.Idx : len(blk.Instrs)-1] {
		switch ins.(type) {
		case *ssa.BinOp, *ssa.UnOp, *ssa.Phi, *ssa.Extract, *ssa.Convert, *ssa.ChangeType, *ssa.FieldAddr, *ssa.IndexAddr, *ssa.DebugRef, *ssa.Field, *ssa.Index:
		case *ssa.Call:
			c := ins.(*ssa.Call)
			if b, ok := c.Call.Value.(*ssa.Builtin); !ok || (b.Name() != "len" && b.Name() != "cap") {
				return false
			}
		default:
			return false
		}
	}
	trial := st.Clone()
	tf := trial.Top()
	saveObls := len(ex.Obls)
	saveSafety := ex.Cfg.Safety
	ex.Cfg.Safety = false
	for tf.Idx < len(blk.Instrs)-1 && !trial.Dead {
		ins := blk.Instrs[tf.Idx]
		tf.Idx++
		if u, ok := ins.(*ssa.UnOp); ok && u.Op == token.ARROW {
			ex.Cfg.Safety = saveSafety
			ex.Obls = ex.Obls[:saveObls]
			return false
		}
		ex.execInstr(trial, tf, ins)
	}
	ex.Cfg.Safety = saveSafety
	ex.Obls = ex.Obls[:saveObls]
	if trial.Dead {
		return false
	}
	c, ok := ex.eval(tf, iff.Cond).(*Term)
	if !ok {
		return false
	}
	return c.IsConstBool() || trial.Decide(c) != 0
}

func (ex *Exec) step(st *State) {
	fr := st.Top()
	if fr.Idx >= len(fr.Block.Instrs) {
		st.Dead = true
		return
	}
	ins := fr.Block.Instrs[fr.Idx]
	fr.Idx++
	defer func() {
		if r := recover(); r != nil {
			if os.Getenv("GOCV_PANIC") != "" {
				panic(r)
			}
			ex.Unsupported[fmt.Sprintf("engine-panic: %v @ %s", r, ex.Prog.Fset.Position(ins.Pos()))]++
			st.Dead = true
		}
	}()
	ex.execInstr(st, fr, ins)
}

// bytesOfCells renders consecutive cells of a small byte array as one byte string: the string X itself when the
// cells are exactly bat(X,0..n-1) of an n-byte X, otherwise the concatenation of one-byte strings bunit(cell).
func (ex *Exec) bytesOfCells(cells []Value) *Term {
	n := len(cells)
	if n == 0 {
		return ex.G.StrConst("")
	}
	var x *Term
	same := true
	for j, c := range cells {
		t, ok := c.(*Term)
		if !ok || t.Op != "app" || t.Name != "bat" || !t.Args[1].IsConstInt() || t.Args[1].I.Int64() != int64(j) || (x != nil && x != t.Args[0]) {
			same = false
			break
		}
		x = t.Args[0]
	}
	if same && x != nil {
		ln := int64(-1)
		if l := ex.G.lens[x.Key()]; l != nil && l.IsConstInt() {
			ln = l.I.Int64()
		}
		if x.Op == "app" && x.Name == "le64" {
			ln = 8
		}
		if x.Op == "app" && x.Name == "sha256" {
			ln = 32
		}
		if ln == int64(n) {
			return x
		}
	}
	var r *Term
	for _, c := range cells {
		t, ok := c.(*Term)
		if !ok || t.Sort != SInt {
			return ex.G.FreshBytes("cells", n)
		}
		u := App("bunit", SB, t)
		ex.G.lens[u.Key()] = IntC(1)
		if r == nil {
			r = u
		} else {
			r = ex.G.BCat(r, u)
		}
	}
	return r
}
