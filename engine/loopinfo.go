package main

import (
	"fmt"
	"go/ast"
	"go/types"
	"os"
	"strings"

	"golang.org/x/tools/go/ssa"
)

type Loop struct {
	Header  *ssa.BasicBlock
	Body    map[*ssa.BasicBlock]bool
	Ordinal int
	WS      *WriteSet
}

type LoopInfo struct {
	ByHeader map[*ssa.BasicBlock]*Loop
	Loops    []*Loop
}

type fieldKey struct {
	Struct string
	Field  int
}

type WriteSet struct {
	Fields  map[fieldKey]bool
	Elems   map[string]bool
	Derefs  map[string]bool
	Allocs  map[*ssa.Alloc]bool
	Globals map[*ssa.Global]bool
	Maps    map[string]bool
	All     bool
	Unknown bool            // the loop calls a function value that is not known statically (parameter, captured variable, field)
	Calls   map[string]bool // contracted / spec'd callees whose effects are applied separately
	Params  map[int]bool    // pointees of the function's own pointer parameters
}

func newWriteSet() *WriteSet {
	return &WriteSet{Fields: map[fieldKey]bool{}, Elems: map[string]bool{}, Derefs: map[string]bool{},
		Allocs: map[*ssa.Alloc]bool{}, Globals: map[*ssa.Global]bool{}, Maps: map[string]bool{}, Calls: map[string]bool{}, Params: map[int]bool{}}
}

func (w *WriteSet) merge(o *WriteSet) {
	for k := range o.Fields {
		w.Fields[k] = true
	}
	for k := range o.Elems {
		w.Elems[k] = true
	}
	for k := range o.Derefs {
		w.Derefs[k] = true
	}
	for k := range o.Globals {
		w.Globals[k] = true
	}
	for k := range o.Maps {
		w.Maps[k] = true
	}
	for k := range o.Calls {
		w.Calls[k] = true
	}
	if o.All {
		w.All = true
	}
	if o.Unknown {
		w.Unknown = true
	}
}

func computeLoops(fn *ssa.Function) *LoopInfo {
	li := &LoopInfo{ByHeader: map[*ssa.BasicBlock]*Loop{}}
	if len(fn.Blocks) == 0 {
		return li
	}
	for _, b := range fn.Blocks {
		for _, s := range b.Succs {
			if s.Dominates(b) {
				// back edge b -> s
				lp := li.ByHeader[s]
				if lp == nil {
					lp = &Loop{Header: s, Body: map[*ssa.BasicBlock]bool{s: true}}
					li.ByHeader[s] = lp
					li.Loops = append(li.Loops, lp)
				}
				// natural loop: all nodes that can reach b without passing s
				stack := []*ssa.BasicBlock{b}
				for len(stack) > 0 {
					x := stack[len(stack)-1]
					stack = stack[:len(stack)-1]
					if lp.Body[x] {
						continue
					}
					lp.Body[x] = true
					for _, p := range x.Preds {
						stack = append(stack, p)
					}
				}
			}
		}
	}
	// ordinal by header block index (source order)
	for i := 0; i < len(li.Loops); i++ {
		for j := i + 1; j < len(li.Loops); j++ {
			if li.Loops[j].Header.Index < li.Loops[i].Header.Index {
				li.Loops[i], li.Loops[j] = li.Loops[j], li.Loops[i]
			}
		}
	}
	for i, l := range li.Loops {
		l.Ordinal = i
	}
	return li
}

// typeKey is the string identity of a type used by the type-based write sets.
func typeKey(t types.Type) string { return types.TypeString(t, nil) }

type wsCtx struct {
	ex    *Exec
	memo  map[*ssa.Function]*WriteSet
	stack map[*ssa.Function]bool
}

// instrWrites adds the locations an instruction may write to ws.
func (c *wsCtx) instrWrites(ws *WriteSet, ins ssa.Instruction) {
	switch v := ins.(type) {
	case *ssa.Store:
		c.addrWrites(ws, v.Addr)
	case *ssa.MapUpdate:
		ws.Maps[typeKey(v.Map.Type().Underlying())] = true
	case *ssa.Call:
		c.callWrites(ws, &v.Call, ins)
	case *ssa.Defer:
		c.callWrites(ws, &v.Call, ins)
	case *ssa.Go:
		// the goroutine runs concurrently; its effects on shared state are outside the sequential model
	case *ssa.Send:
	}
}

// addrRoot follows field/index address computations down to the value the address is derived from.
func addrRoot(v ssa.Value) ssa.Value {
	for {
		switch a := v.(type) {
		case *ssa.FieldAddr:
			v = a.X
		case *ssa.IndexAddr:
			if _, isPtr := a.X.Type().Underlying().(*types.Pointer); isPtr {
				v = a.X
			} else {
				return v
			}
		default:
			return v
		}
	}
}

func paramIndex(p *ssa.Parameter) int {
	for i, q := range p.Parent().Params {
		if q == p {
			return i
		}
	}
	return -1
}

// ptrWrites records a write through the pointer value v (of the current function).
func (c *wsCtx) ptrWrites(ws *WriteSet, v ssa.Value) {
	switch r := addrRoot(v).(type) {
	case *ssa.Parameter:
		if i := paramIndex(r); i >= 0 {
			ws.Params[i] = true
			return
		}
	case *ssa.Alloc:
		ws.Allocs[r] = true
		return
	case *ssa.Global:
		ws.Globals[r] = true
		return
	}
	if p, ok := v.Type().Underlying().(*types.Pointer); ok {
		c.reachWritesShallow(ws, p.Elem())
	} else {
		c.reachWrites(ws, v.Type())
	}
}

func (c *wsCtx) reachWritesShallow(ws *WriteSet, t types.Type) {
	ws.Derefs[typeKey(t)] = true
}

func (c *wsCtx) addrWrites(ws *WriteSet, addr ssa.Value) {
	switch r := addrRoot(addr).(type) {
	case *ssa.Parameter:
		if i := paramIndex(r); i >= 0 {
			ws.Params[i] = true
			return
		}
	case *ssa.Alloc:
		ws.Allocs[r] = true
		return
	}
	switch a := addr.(type) {
	case *ssa.FieldAddr:
		st := a.X.Type().Underlying().(*types.Pointer).Elem()
		ws.Fields[fieldKey{typeKey(st), a.Field}] = true
	case *ssa.IndexAddr:
		var et types.Type
		switch u := a.X.Type().Underlying().(type) {
		case *types.Slice:
			et = u.Elem()
		case *types.Pointer:
			et = u.Elem().Underlying().(*types.Array).Elem()
		}
		if et != nil {
			ws.Elems[typeKey(et)] = true
		}
	case *ssa.Alloc:
		ws.Allocs[a] = true
	case *ssa.Global:
		ws.Globals[a] = true
	default:
		if p, ok := addr.Type().Underlying().(*types.Pointer); ok {
			ws.Derefs[typeKey(p.Elem())] = true
		} else {
			ws.All = true
		}
	}
}

// funcArgWrites: a callee that receives a function value may call it; its effects are the effects of the
// function bodies that can flow there (closures / functions named at the call site, otherwise any
// anonymous function of the enclosing function family).
func (c *wsCtx) funcArgWrites(ws *WriteSet, call *ssa.CallCommon, ins ssa.Instruction) {
	for _, a := range call.Args {
		if _, ok := a.Type().Underlying().(*types.Signature); !ok {
			continue
		}
		switch f := a.(type) {
		case *ssa.MakeClosure:
			ws.merge(c.fnWS(f.Fn.(*ssa.Function)))
		case *ssa.Function:
			ws.merge(c.fnWS(f))
		default:
			if ins != nil && ins.Parent() != nil {
				root := ins.Parent()
				for root.Parent() != nil {
					root = root.Parent()
				}
				var rec func(f *ssa.Function)
				rec = func(f *ssa.Function) {
					for _, af := range f.AnonFuncs {
						ws.merge(c.fnWS(af))
						rec(af)
					}
				}
				rec(root)
				// bound methods ($bound wrappers) of repository types
				if mc, ok := a.(*ssa.MakeClosure); ok {
					_ = mc
				}
			}
		}
	}
}

func (c *wsCtx) callWrites(ws *WriteSet, call *ssa.CallCommon, ins ssa.Instruction) {
	c.funcArgWrites(ws, call, ins)
	if call.IsInvoke() {
		// interface method: external unless spec says pure; pointer args may be written
		name := invokeName(call)
		if c.ex.isPureCallee(name) {
			return
		}
		for _, a := range call.Args {
			c.reachWrites(ws, a.Type())
		}
		return
	}
	switch f := call.Value.(type) {
	case *ssa.Builtin:
		switch f.Name() {
		case "copy":
			if s, ok := call.Args[0].Type().Underlying().(*types.Slice); ok {
				ws.Elems[typeKey(s.Elem())] = true
			}
		case "delete":
			ws.Maps[typeKey(call.Args[0].Type().Underlying())] = true
		case "append":
			// may write into the spare capacity of the backing array: modelled as fresh allocation
		}
		return
	case *ssa.Function:
		c.funcWrites(ws, f, call)
		return
	case *ssa.MakeClosure:
		c.funcWrites(ws, f.Fn.(*ssa.Function), call)
		return
	}
	// unknown function value: any anonymous function of the enclosing function family may run; which other
	// functions can be meant is only known at verification time (havocLoop looks at the function values in scope)
	ws.Unknown = true
	if ins != nil && ins.Parent() != nil {
		root := ins.Parent()
		for root.Parent() != nil {
			root = root.Parent()
		}
		var rec func(f *ssa.Function)
		rec = func(f *ssa.Function) {
			for _, af := range f.AnonFuncs {
				ws.merge(c.fnWS(af))
				c.freeVarWrites(ws, af)
				rec(af)
			}
		}
		rec(root)
	}
	for _, a := range call.Args {
		c.reachWrites(ws, a.Type())
	}
}

func (c *wsCtx) freeVarWrites(ws *WriteSet, f *ssa.Function) {
	// stores through free variables inside closures write the captured Alloc cells; they appear as
	// Store{Addr: FreeVar}: record as deref of that type.
}

func (c *wsCtx) funcWrites(ws *WriteSet, f *ssa.Function, call *ssa.CallCommon) {
	name := f.String()
	if c.ex.isInRepo(f) && len(f.Blocks) > 0 {
		if c.ex.Specs != nil && c.ex.Specs.Contracts[name] != nil && c.ex.useContract(name) {
			ws.Calls[name] = true
			// assigns of the contract are havocked at the cut through type keys of its params
			ct := c.ex.Specs.Contracts[name]
			if ct.PureFrame {
				return
			}
			if ct.HasAssign {
				// assigns clauses name parameters of the callee: *p, p.f, *p.f
				for _, a := range ct.Assigns {
					if ce, ok := a.(*ast.CallExpr); ok && len(ce.Args) == 1 {
						// reach(param): whatever the function value / pointer argument can reach
						if id, ok := ce.Args[0].(*ast.Ident); ok {
							for i, prm := range f.Params {
								if prm.Name() == id.Name && i < len(call.Args) {
									c.reachWrites(ws, call.Args[i].Type())
								}
							}
						}
						continue
					}
					pn := assignRootName(a)
					hit := false
					for i, prm := range f.Params {
						if prm.Name() == pn && i < len(call.Args) {
							c.ptrWrites(ws, call.Args[i])
							hit = true
						}
					}
					if !hit {
						ws.All = true
					}
				}
				return
			}
			for _, a := range call.Args {
				c.reachWrites(ws, a.Type())
			}
			return
		}
		cw := c.fnWS(f)
		ws.merge(cw)
		// writes through the callee's pointer parameters are writes through the corresponding arguments
		for i := range cw.Params {
			if i < len(call.Args) {
				c.ptrWrites(ws, call.Args[i])
			}
		}
		return
	}
	if c.ex.isPureCallee(name) {
		return
	}
	if m := c.ex.externModel(name); m != nil && m.Writes != nil {
		m.Writes(c, ws, call)
		return
	}
	for _, a := range call.Args {
		c.reachWrites(ws, a.Type())
	}
}

// reachWrites: a callee receiving a value of type t may write everything reachable through pointers.
func (c *wsCtx) reachWrites(ws *WriteSet, t types.Type) {
	seen := map[string]bool{}
	var rec func(t types.Type, viaPtr bool)
	rec = func(t types.Type, viaPtr bool) {
		k := typeKey(t)
		if seen[k+"|"+boolStr(viaPtr)] {
			return
		}
		seen[k+"|"+boolStr(viaPtr)] = true
		if _, ok := opaqueSort(t); ok {
			if viaPtr {
				ws.Derefs[k] = true
			}
			return
		}
		switch u := t.Underlying().(type) {
		case *types.Pointer:
			ws.Derefs[typeKey(u.Elem())] = true
			rec(u.Elem(), true)
		case *types.Struct:
			for i := 0; i < u.NumFields(); i++ {
				if viaPtr {
					ws.Fields[fieldKey{k, i}] = true
				}
				rec(u.Field(i).Type(), viaPtr)
			}
		case *types.Slice:
			ws.Elems[typeKey(u.Elem())] = true
			rec(u.Elem(), true)
		case *types.Array:
			if viaPtr {
				ws.Elems[typeKey(u.Elem())] = true
			}
			rec(u.Elem(), viaPtr)
		case *types.Map:
			ws.Maps[typeKey(u)] = true
			rec(u.Elem(), true)
		case *types.Interface, *types.Signature:
			// function values are handled by funcArgWrites; interface values hold external state
		}
	}
	rec(t, false)
}

func boolStr(b bool) string {
	if b {
		return "1"
	}
	return "0"
}

func (c *wsCtx) fnWS(f *ssa.Function) *WriteSet {
	if ws, ok := c.memo[f]; ok {
		return ws
	}
	ws := newWriteSet()
	c.memo[f] = ws
	if c.stack[f] {
		return ws
	}
	c.stack[f] = true
	for _, b := range f.Blocks {
		for _, ins := range b.Instrs {
			c.instrWrites(ws, ins)
		}
	}
	// a closure writing through its free variables writes the captured cells
	delete(c.stack, f)
	// local allocs of the callee are not visible to callers
	ws.Allocs = map[*ssa.Alloc]bool{}
	return ws
}

func (ex *Exec) loopWriteSet(fn *ssa.Function, lp *Loop) *WriteSet {
	if lp.WS != nil {
		return lp.WS
	}
	c := &wsCtx{ex: ex, memo: map[*ssa.Function]*WriteSet{}, stack: map[*ssa.Function]bool{}}
	ws := newWriteSet()
	for b := range lp.Body {
		for _, ins := range b.Instrs {
			c.instrWrites(ws, ins)
			// stores through FreeVar addresses inside closures created in the loop are covered by
			// the closure bodies themselves when they are called (callWrites).
		}
	}
	lp.WS = ws
	return ws
}

func assignRootName(e ast.Expr) string {
	for {
		switch n := e.(type) {
		case *ast.StarExpr:
			e = n.X
		case *ast.SelectorExpr:
			e = n.X
		case *ast.ParenExpr:
			e = n.X
		case *ast.Ident:
			return n.Name
		default:
			return ""
		}
	}
}

func invokeName(call *ssa.CallCommon) string {
	recv := typeKey(call.Value.Type())
	// shorten module prefix
	recv = strings.ReplaceAll(recv, modulePrefix+"/", "")
	return "(" + recv + ")." + call.Method.Name()
}

// clone copies a write set (the cached per-loop set must not be modified by per-activation additions).
func (w *WriteSet) clone() *WriteSet {
	n := newWriteSet()
	n.merge(w)
	for k := range w.Allocs {
		n.Allocs[k] = true
	}
	for k := range w.Params {
		n.Params[k] = true
	}
	return n
}

// dynamicCallees adds to ws what the function values that are in scope of the current activation stack may write:
// a loop that calls through a parameter or a captured variable runs one of them. A function value that is itself
// unknown (a symbolic parameter of the function under verification) may write anything reachable.
func (ex *Exec) dynamicCallees(st *State, ws *WriteSet) {
	c := &wsCtx{ex: ex, memo: map[*ssa.Function]*WriteSet{}, stack: map[*ssa.Function]bool{}}
	seen := map[*ssa.Function]bool{}
	// symbolic function values that entered through a parameter with a declared callback frame (they may be reached
	// again through the cells of closures that captured the parameter)
	framedVals := map[*FuncV]bool{}
	for _, f := range st.Frames {
		for i := range ex.callbackFramed(f) {
			if i < len(f.Args) {
				if fv, ok := f.Args[i].(*FuncV); ok && (fv.Fn == nil || len(fv.Fn.Blocks) == 0) {
					framedVals[fv] = true
				}
			}
		}
	}
	var visit func(v Value, depth int)
	visit = func(v Value, depth int) {
		if depth > 4 {
			return
		}
		switch x := v.(type) {
		case *FuncV:
			if framedVals[x] {
				return
			}
			if x.Fn == nil || len(x.Fn.Blocks) == 0 {
				if os.Getenv("GOCV_TRACE") != "" {
					fmt.Fprintf(os.Stderr, "dynamicCallees: unknown function value in scope (%v) -> havoc all\n", x.Fn)
				}
				ws.All = true
				return
			}
			if seen[x.Fn] {
				return
			}
			seen[x.Fn] = true
			w1 := c.fnWS(x.Fn)
			if os.Getenv("GOCV_TRACE") != "" {
				fmt.Fprintf(os.Stderr, "dynamicCallees: %s writes fields=%v elems=%v derefs=%v maps=%v params=%v all=%v\n", x.Fn, w1.Fields, w1.Elems, w1.Derefs, w1.Maps, w1.Params, w1.All)
			}
			ws.merge(w1)
			var rec func(f *ssa.Function)
			rec = func(f *ssa.Function) {
				for _, af := range f.AnonFuncs {
					ws.merge(c.fnWS(af))
					rec(af)
				}
			}
			rec(x.Fn)
			for _, b := range x.Bind {
				visit(b, depth+1)
			}
		case *PtrV:
			if x.Obj != nil {
				if _, isFunc := typeAtPath(x.Obj.Typ, x.Path).Underlying().(*types.Signature); isFunc {
					visit(ex.load(st, x, nil), depth+1)
				}
			}
		}
	}
	for _, f := range st.Frames {
		framed := ex.callbackFramed(f)
		for i, a := range f.Args {
			if framed[i] {
				if fv, ok := a.(*FuncV); ok && (fv.Fn == nil || len(fv.Fn.Blocks) == 0) {
					continue // declared callback frame: assumed not to write what the function can reach
				}
			}
			visit(a, 0)
		}
		for _, b := range f.Bind {
			visit(b, 0)
		}
		for k, lv := range f.Locals {
			if _, isParam := k.(*ssa.Parameter); isParam {
				continue // parameters were looked at through f.Args (where a declared callback frame is honoured)
			}
			if _, isFunc := k.Type().Underlying().(*types.Signature); isFunc {
				visit(lv, 0)
			}
		}
	}
}

// callbackFramed: positions of the parameters of f's function that carry a declared callback frame.
func (ex *Exec) callbackFramed(f *Frame) map[int]bool {
	out := map[int]bool{}
	if ex.Specs == nil {
		return out
	}
	ct := ex.Specs.Contracts[f.Fn.String()]
	if ct == nil || len(ct.Callbacks) == 0 {
		return out
	}
	base, haveBase := loadSignatureBaseline()[canonFn(strings.ReplaceAll(f.Fn.String(), modulePrefix+"/", ""))]
	for i, p := range f.Fn.Params {
		if ct.Callbacks[p.Name()] || (haveBase && i < len(base.Params) && ct.Callbacks[base.Params[i]]) {
			out[i] = true
		}
	}
	return out
}

// intersects: does the write set touch anything of the reach set?
func (w *WriteSet) intersects(reach *WriteSet) string {
	if w.All {
		return "may write anything"
	}
	for k := range w.Fields {
		if reach.Fields[k] {
			return fmt.Sprintf("field %d of %s", k.Field, k.Struct)
		}
	}
	for k := range w.Elems {
		if reach.Elems[k] {
			return "elements of type " + k
		}
	}
	for k := range w.Derefs {
		if reach.Derefs[k] {
			return "pointee of type " + k
		}
	}
	for k := range w.Maps {
		if reach.Maps[k] {
			return "map of type " + k
		}
	}
	return ""
}

// checkCallbackFrames: a function with declared callback frames (`callback p assigns nothing`) is verified under the
// assumption that calls through p do not write memory reachable from its other arguments. The type-based write sets
// are too coarse to check that at the call sites (everything reachable from a captured receiver counts as written), so
// each call site is RECORDED and reported as an unchecked assumption in the evidence (trusted base), not discharged.
func (ex *Exec) checkCallbackFrames(st *State, fr *Frame, ins ssa.Instruction, f *ssa.Function, ct *Contract, args []Value) {
	if ct == nil || len(ct.Callbacks) == 0 {
		return
	}
	base, haveBase := loadSignatureBaseline()[canonFn(strings.ReplaceAll(f.String(), modulePrefix+"/", ""))]
	for i, p := range f.Params {
		if !(ct.Callbacks[p.Name()] || (haveBase && i < len(base.Params) && ct.Callbacks[base.Params[i]])) || i >= len(args) {
			continue
		}
		actual := "an unknown function value"
		if fv, ok := args[i].(*FuncV); ok && fv.Fn != nil {
			actual = shortName(ex.fnName(fv.Fn))
		}
		if CallbackAssumptions == nil {
			CallbackAssumptions = map[string]bool{}
		}
		CallbackAssumptions[fmt.Sprintf("callback frame (unchecked): %s passes %s as %s of %s; assumed not to write memory reachable from the other arguments of that call", shortName(ex.fnName(fr.Fn)), actual, p.Name(), shortName(ex.fnName(f)))] = true
	}
}

// CallbackAssumptions collects the call sites recorded by checkCallbackFrames in this run.
var CallbackAssumptions map[string]bool
