package main

import (
	"fmt"
	"go/types"
	"os"
	"strings"

	"golang.org/x/tools/go/ssa"
)

var callCount = map[string]int{}

func (ex *Exec) call(st *State, fr *Frame, ins ssa.Instruction, c *ssa.CallCommon, dst ssa.Value) {
	if traceCalls {
		callCount[ex.Prog.Fset.Position(ins.Pos()).String()+" "+calleeName(c)]++
	}
	var args []Value
	for _, a := range c.Args {
		args = append(args, ex.eval(fr, a))
	}
	if c.IsInvoke() {
		recv := ex.eval(fr, c.Value)
		ex.invoke(st, fr, ins, c, recv, args, dst)
		return
	}
	switch f := c.Value.(type) {
	case *ssa.Builtin:
		ex.builtin(st, fr, ins, f, c, args, dst)
		return
	case *ssa.Function:
		ex.callFunc(st, fr, ins, f, nil, args, dst, c)
		return
	}
	fv, ok := ex.eval(fr, c.Value).(*FuncV)
	if ok {
		ex.safety(st, "nilfunc", Not(ex.nilTerm(fv)), ins, c.Value)
	}
	if ok && fv.Fn != nil {
		ex.callFunc(st, fr, ins, fv.Fn, fv.Bind, args, dst, c)
		return
	}
	// unknown function value: named after the expression that is called (a parameter, a field, ...)
	ex.havocCall(st, fr, ins, "dyn:"+ssaText(c.Value, 0), c.Signature(), args, dst, true)
}

func (ex *Exec) setResult(st *State, fr *Frame, dst ssa.Value, v Value) {
	if dst != nil {
		fr.Locals[dst] = v
	}
}

func (ex *Exec) callFunc(st *State, fr *Frame, ins ssa.Instruction, f *ssa.Function, bind []Value, args []Value, dst ssa.Value, c *ssa.CallCommon) {
	name := f.String()
	if ex.Specs != nil {
		ex.checkCallbackFrames(st, fr, ins, f, ex.Specs.Contracts[name], args)
		if ct := ex.Specs.Contracts[name]; ct != nil && ex.useContract(name) && !(f == ex.entry && len(st.Frames) == 1 && false) {
			ex.applyContract(st, fr, ins, f, ct, args, dst)
			return
		}
	}
	if m := ex.externModel(name); m != nil && m.Apply != nil {
		res, handled := m.Apply(ex, st, fr, ins, args)
		if handled {
			if _, pushed := res.(pushedFrame); pushed {
				return
			}
			if !st.Dead {
				ex.setResult(st, fr, dst, res)
				ex.event(st, &Event{Callee: name, Args: args, Results: tupleElems(res), Instr: ins, Fn: fr.Fn, Kind: "call"})
			}
			return
		}
	}
	inl := len(f.Blocks) > 0 && (ex.isInRepo(f) || f.Synthetic != "" && !strings.HasPrefix(f.Synthetic, "package initializer"))
	if inl && f.Pkg != nil && strings.HasSuffix(f.Pkg.Pkg.Path(), "/protobufcompiled") {
		// generated protobuf / gRPC code is treated as external (A10): getters are pure, stubs perform network calls
		inl = false
	}
	if inl && f.Synthetic != "" && !ex.isInRepo(f) {
		// bound-method / thunk wrappers are inlined only if they wrap repository methods or closures
		inl = strings.Contains(name, modulePrefix) || strings.Contains(f.Synthetic, "bound method") || strings.Contains(f.Synthetic, "thunk")
	}
	if inl {
		depth := 0
		for _, fx := range st.Frames {
			if fx.Fn == f {
				depth += 100 // recursion
			}
			depth++
		}
		if depth <= ex.Cfg.MaxDepth+1 {
			ex.pushFrame(st, f, bind, args, ins, dst)
			return
		}
		ex.note(st, "inline depth exceeded at "+name)
	}
	ex.havocCall(st, fr, ins, name, f.Signature, args, dst, !ex.isPureCallee(name))
}

func tupleElems(v Value) []Value {
	if v == nil {
		return nil
	}
	if t, ok := v.(*TupleV); ok {
		return t.E
	}
	return []Value{v}
}

func (ex *Exec) pushFrame(st *State, f *ssa.Function, bind []Value, args []Value, ins ssa.Instruction, dst ssa.Value) {
	nf := &Frame{Fn: f, Block: f.Blocks[0], Locals: map[ssa.Value]Value{}, Call: ins, Bind: bind,
		LoopHit: map[*ssa.BasicBlock]int{}, Cut: map[*ssa.BasicBlock]bool{}}
	for i, p := range f.Params {
		if i < len(args) {
			nf.Locals[p] = args[i]
		}
	}
	nf.retDst = dst
	nf.Args = args
	st.Frames = append(st.Frames, nf)
}

// checkDisciplines emits the ghost-protocol obligations a function's contract asks for at one of its returns.
func (ex *Exec) checkDisciplines(st *State, fr *Frame) {
	if ex.Specs == nil {
		return
	}
	ct := ex.Specs.Contracts[fr.Fn.String()]
	if ct == nil || len(ct.Discipline) == 0 {
		return
	}
	site := ex.returnSite(fr)
	if props, ok := ct.Discipline["walkers-drained"]; ok {
		goal := BoolC(len(st.Open) == 0)
		ob := &Obligation{Name: fmt.Sprintf("%s/ghost:open/%s", ex.fnName(fr.Fn), site), Kind: "ghost", Goal: goal, Props: props, Fn: fr.Fn.String(),
			Note: "an ancestor walker is still open at this return: its producer may be parked holding the graph read lock"}
		if fr.Idx > 0 && fr.Idx <= len(fr.Block.Instrs) {
			ob.Pos = ex.Prog.Fset.Position(fr.Block.Instrs[fr.Idx-1].Pos())
		}
		ex.record(st, ob)
	}
	if props, ok := ct.Discipline["locks-released"]; ok {
		held := false
		for _, n := range st.Held {
			if n != 0 {
				// > 0: still held; < 0: an unlock without the matching lock (a run-time fatal error in Go)
				held = true
			}
		}
		// deferred unlocks run before the frame is popped, so this is the state the caller sees
		ob := &Obligation{Name: fmt.Sprintf("%s/ghost:held/%s", ex.fnName(fr.Fn), site), Kind: "ghost", Goal: BoolC(!held), Props: props, Fn: fr.Fn.String(),
			Note: "a lock acquired by this function is still held at this return, or a lock was released that was not held"}
		ex.record(st, ob)
	}
}

// returnSite names a return by what precedes it: the ordinal of the Return instruction among the returns
// of the function (block order).
func (ex *Exec) returnSite(fr *Frame) string {
	n := 0
	for _, b := range fr.Fn.Blocks {
		for _, ins := range b.Instrs {
			if _, ok := ins.(*ssa.Return); ok {
				if b == fr.Block {
					return fmt.Sprintf("return#%d", n)
				}
				n++
			}
		}
	}
	return "return#?"
}

func (ex *Exec) doReturn(st *State, fr *Frame, res Value) {
	if ex.subCollect != nil && len(st.Frames) == 1 {
		*ex.subCollect = append(*ex.subCollect, res)
		st.Frames = nil
		return
	}
	ex.checkDisciplines(st, fr)
	if len(fr.LeftEarly) > 0 {
		ex.checkLeftEarly(st, fr, res)
	}
	if len(ex.coverClauses(fr)) > 0 {
		ex.checkCoverReached(st, fr, res)
	}
	if len(st.Frames) == 1 {
		if fr.Idx > 0 && fr.Idx <= len(fr.Block.Instrs) {
			st.LastReturn = ex.Prog.Fset.Position(fr.Block.Instrs[fr.Idx-1].Pos()).String()
		}
		// entry function returns: check postconditions
		ex.finish(st, fr, res)
		st.Frames = nil
		return
	}
	if traceCalls && fr.Idx > 0 && fr.Idx <= len(fr.Block.Instrs) {
		nilr := ""
		if iv, ok := res.(*IfaceV); ok {
			nilr = " err=" + iv.ID.String()
			if len(nilr) > 60 {
				nilr = nilr[:60]
			}
		}
		callCount["RET "+ex.Prog.Fset.Position(fr.Block.Instrs[fr.Idx-1].Pos()).String()+" "+fr.Fn.Name()+nilr]++
	}
	st.Frames = st.Frames[:len(st.Frames)-1]
	caller := st.Top()
	if fr.OnReturn != nil {
		res = fr.OnReturn(ex, st, res)
	}
	if fr.IsDeferCall {
		// result of a deferred call is discarded; continue running defers of the caller
		ex.runDefers(st, caller)
		return
	}
	if fr.retDst != nil {
		caller.Locals[fr.retDst] = res
	}
	if fr.CalleeName != "" {
		ex.event(st, &Event{Callee: fr.CalleeName, Args: fr.CallArgs, Results: tupleElems(res), Instr: fr.Call, Fn: caller.Fn, Kind: "call"})
		return
	}
	ex.event(st, &Event{Callee: fr.Fn.String(), Args: fr.Args, Results: tupleElems(res), Instr: fr.Call, Fn: caller.Fn, Kind: "call"})
}

// runDefers executes pending deferred calls of fr (LIFO), then continues after the RunDefers instruction.
func (ex *Exec) runDefers(st *State, fr *Frame) {
	for len(fr.Defers) > 0 {
		d := fr.Defers[len(fr.Defers)-1]
		fr.Defers = fr.Defers[:len(fr.Defers)-1]
		before := len(st.Frames)
		ex.callDeferred(st, fr, d)
		if st.Dead {
			return
		}
		if len(st.Frames) > before {
			// an inlined deferred function is running; it will call runDefers again on return
			st.Top().IsDeferCall = true
			return
		}
	}
}

func (ex *Exec) callDeferred(st *State, fr *Frame, d *deferred) {
	c := d.Call
	if c.IsInvoke() {
		ex.invoke(st, fr, d.Instr, c, d.Fn, d.Args, nil)
		return
	}
	switch f := c.Value.(type) {
	case *ssa.Builtin:
		ex.builtin(st, fr, d.Instr, f, c, d.Args, nil)
		return
	case *ssa.Function:
		ex.callFunc(st, fr, d.Instr, f, nil, d.Args, nil, c)
		return
	}
	if fv, ok := d.Fn.(*FuncV); ok && fv.Fn != nil {
		ex.callFunc(st, fr, d.Instr, fv.Fn, fv.Bind, d.Args, nil, c)
		return
	}
	ex.havocCall(st, fr, d.Instr, "dynamic-defer", c.Signature(), d.Args, nil, true)
}

// havocCall models an unknown callee: fresh results, everything reachable from pointer arguments havocked.
func (ex *Exec) havocCall(st *State, fr *Frame, ins ssa.Instruction, name string, sig *types.Signature, args []Value, dst ssa.Value, writes bool) {
	var res Value
	if sig != nil {
		res = ex.freshResults(sig, sanitize(shortName(name)))
		if !strings.HasPrefix(name, "dyn:") && !strings.Contains(name, modulePrefix) {
			markLib(res)
			markOrigin(res, moduleOf(name))
		}
	}
	ex.setResult(st, fr, dst, res)
	// the call event is observed with the arguments as they were passed; the callee's writes come after
	ex.event(st, &Event{Callee: name, Args: args, Results: tupleElems(res), Instr: ins, Fn: fr.Fn, Kind: "call"})
	if ex.Specs != nil {
		for i := range ex.Specs.RetainsArgs[name] {
			if i < len(args) {
				if sv, ok := args[i].(*SliceV); ok && sv.Obj != nil {
					ex.retain(st, sv.Obj, name)
				}
			}
		}
	}
	if writes {
		var ro map[int]bool
		if ex.Specs != nil {
			ro = ex.Specs.ReadonlyArgs[name]
		}
		for i, a := range args {
			if ro[i] {
				continue
			}
			ex.havocReach(st, a, map[*Object]bool{})
		}
	}
}

func shortName(n string) string {
	n = strings.ReplaceAll(n, modulePrefix+"/", "")
	if i := strings.LastIndex(n, "/"); i >= 0 {
		n = n[i+1:]
	}
	return n
}

func (ex *Exec) freshResults(sig *types.Signature, hint string) Value {
	save := ex.G.nonNil
	ex.G.nonNil = true // A7: pointers returned by external calls are non-nil
	defer func() { ex.G.nonNil = save }()
	r := sig.Results()
	switch r.Len() {
	case 0:
		return &TupleV{}
	case 1:
		return ex.G.Fresh(r.At(0).Type(), hint+"_ret")
	}
	t := &TupleV{}
	for i := 0; i < r.Len(); i++ {
		t.E = append(t.E, ex.G.Fresh(r.At(i).Type(), fmt.Sprintf("%s_ret%d", hint, i)))
	}
	return t
}

func (ex *Exec) havocReach(st *State, v Value, seen map[*Object]bool) {
	switch x := v.(type) {
	case *PtrV:
		if x.Obj == nil || seen[x.Obj] {
			return
		}
		seen[x.Obj] = true
		root := ex.objVal(st, x.Obj)
		old := ex.readPath(st, root, x.Path, x.Obj.Typ)
		t := typeAtPath(x.Obj.Typ, x.Path)
		if _, isMS := root.(*MapState); isMS {
			return
		}
		st.Depth++
		st.Heap[x.Obj] = ex.writePath(st, root, x.Path, ex.G.Fresh(t, "havoc_"+sanitize(x.Obj.Name)), x.Obj.Typ)
		ex.markWritten(st, x.Obj)
		ex.havocReach(st, old, seen)
	case *SliceV:
		if x.Obj == nil || seen[x.Obj] {
			return
		}
		seen[x.Obj] = true
		root := ex.objVal(st, x.Obj)
		old := ex.readPath(st, root, x.Path, x.Obj.Typ)
		st.Depth++
		var nv Value
		switch o := old.(type) {
		case *Term:
			n := ex.G.FreshBytes("havoc_bytes", -1)
			ex.G.facts[n.Name] = append(ex.G.facts[n.Name], Eq(App("blen", SInt, n), ex.G.BLen(o)))
			nv = n
		case *ArrV:
			a := &ArrV{Elem: o.Elem}
			for _, e := range o.E {
				a.E = append(a.E, ex.G.Fresh(o.Elem, "havoc_el"))
				ex.havocReach(st, e, seen)
			}
			nv = a
		case *SymSeq:
			ex.G.n++
			nv = &SymSeq{ID: ex.G.n, Elem: o.Elem, Name: o.Name + "_h"}
			for _, e := range o.Known {
				ex.havocReach(st, e, seen)
			}
		default:
			return
		}
		st.Heap[x.Obj] = ex.writePath(st, root, x.Path, nv, x.Obj.Typ)
		ex.markWritten(st, x.Obj)
	case *MapV:
		if x.Obj == nil || seen[x.Obj] {
			return
		}
		seen[x.Obj] = true
		st.Depth++
		st.Heap[x.Obj] = ex.G.FreshMapState(x.T, "havoc_map")
		ex.markWritten(st, x.Obj)
	case *StructV:
		for _, f := range x.F {
			ex.havocReach(st, f, seen)
		}
	case *ArrV:
		for _, e := range x.E {
			ex.havocReach(st, e, seen)
		}
	case *IfaceV:
		if x.Val != nil {
			ex.havocReach(st, x.Val, seen)
		}
	case *FuncV:
		for _, b := range x.Bind {
			ex.havocReach(st, b, seen)
		}
	case *TupleV:
		for _, e := range x.E {
			ex.havocReach(st, e, seen)
		}
	}
}

// ---------- interface method calls ----------

func (ex *Exec) invoke(st *State, fr *Frame, ins ssa.Instruction, c *ssa.CallCommon, recv Value, args []Value, dst ssa.Value) {
	iv, _ := recv.(*IfaceV)
	if iv != nil {
		ex.safety(st, "nil", Neq(iv.ID, IntC(0)), ins, c.Value)
		if st.Dead {
			return
		}
	}
	if iv != nil && iv.Dyn != nil {
		// dynamic dispatch on a known type
		ms := ex.Prog.MethodSets.MethodSet(iv.Dyn)
		if sel := ms.Lookup(c.Method.Pkg(), c.Method.Name()); sel != nil {
			if f := ex.Prog.MethodValue(sel); f != nil {
				ex.callFunc(st, fr, ins, f, nil, append([]Value{iv.Val}, args...), dst, c)
				return
			}
		}
	}
	name := invokeName(c)
	if m := ex.externModel(name); m != nil && m.Apply != nil {
		res, handled := m.Apply(ex, st, fr, ins, append([]Value{recv}, args...))
		if handled {
			if !st.Dead {
				ex.setResult(st, fr, dst, res)
				ex.event(st, &Event{Callee: name, Args: append([]Value{recv}, args...), Results: tupleElems(res), Instr: ins, Fn: fr.Fn, Kind: "call"})
			}
			return
		}
	}
	sig := c.Signature()
	kind := ex.ifaceKind(name)
	var res Value
	switch kind {
	case "pure", "global":
		// deterministic function of its arguments (and of the receiver unless global)
		var ts []*Term
		okAll := true
		if kind == "pure" && iv != nil {
			ts = append(ts, iv.ID)
		}
		for _, a := range args {
			t, ok := ex.argTerm(st, a)
			if !ok {
				okAll = false
				break
			}
			ts = append(ts, t)
		}
		if okAll {
			// a method of the same dynamic value is the same function whatever interface type it is called through
			fname := "p_" + c.Method.Name()
			if kind == "global" {
				// one function per method name: every implementation of this interface method is the same function
				fname = "g_" + c.Method.Name()
			}
			res = ex.ufResults(sig, fname, ts)
		} else {
			res = ex.freshResults(sig, sanitize(shortName(name)))
		}
	case "readonly":
		res = ex.freshResults(sig, sanitize(shortName(name)))
	default:
		res = ex.freshResults(sig, sanitize(shortName(name)))
		defer func() {
			for _, a := range args {
				ex.havocReach(st, a, map[*Object]bool{})
			}
		}()
	}
	// A4: a signer's signature verifies against its own address: Verify(m, Sign(m).sig, Sign(m).digest, Address()) == nil
	if kind == "pure" && c.Method.Name() == "Sign" && iv != nil && len(args) == 1 {
		if tv, ok := res.(*TupleV); ok && len(tv.E) == 2 {
			msg, ok1 := ex.argTerm(st, args[0])
			dig, ok2 := tv.E[0].(*Term)
			sig, ok3 := ex.argTerm(st, tv.E[1])
			if ok1 && ok2 && ok3 {
				addr := App("p_Address_r0", SB, iv.ID)
				st.Assume(Eq(App("g_Verify_r0", SInt, msg, sig, dig, addr), IntC(0)))
			}
		}
	}
	ex.setResult(st, fr, dst, res)
	ex.event(st, &Event{Callee: name, Args: append([]Value{recv}, args...), Results: tupleElems(res), Instr: ins, Fn: fr.Fn, Kind: "call"})
}

// argTerm converts a value to a single term when possible (content of byte slices, scalars).
func (ex *Exec) argTerm(st *State, v Value) (*Term, bool) {
	switch x := v.(type) {
	case *Term:
		return x, true
	case *SliceV:
		if isByte(x.Elem) {
			return ex.sliceBytes(st, x), true
		}
	case *IfaceV:
		return x.ID, true
	}
	return nil, false
}

func (ex *Exec) ufResults(sig *types.Signature, fname string, args []*Term) Value {
	r := sig.Results()
	mk := func(i int, t types.Type) Value {
		n := fmt.Sprintf("%s_r%d", fname, i)
		switch {
		case isErrorType(t) || types.IsInterface(t):
			id := App(n, SInt, args...)
			return &IfaceV{ID: id}
		case sortOf(t) != "":
			a := App(n, sortOf(t), args...)
			if isByteArray(t) {
				ex.G.lens[a.Key()] = IntC(t.Underlying().(*types.Array).Len())
			}
			return a
		case isByteSlice(t):
			content := App(n, SB, args...)
			obj := ex.G.NewObject(t, n)
			obj.init = content
			l := ex.G.BLen(content)
			return &SliceV{Nil: TFalse, Obj: obj, Off: IntC(0), Len: l, Cap: l, Elem: types.Typ[types.Uint8]}
		}
		save := ex.G.nonNil
		ex.G.nonNil = true
		defer func() { ex.G.nonNil = save }()
		return ex.G.Fresh(t, n)
	}
	switch r.Len() {
	case 0:
		return &TupleV{}
	case 1:
		return mk(0, r.At(0).Type())
	}
	t := &TupleV{}
	for i := 0; i < r.Len(); i++ {
		t.E = append(t.E, mk(i, r.At(i).Type()))
	}
	return t
}

// ---------- builtins ----------

func (ex *Exec) lenOf(st *State, v Value, t types.Type) *Term {
	switch x := v.(type) {
	case *SliceV:
		return x.Len
	case *Term:
		if x.Sort == SB {
			return ex.G.BLen(x)
		}
	case *MapV:
		ms := ex.mapState(st, x)
		if ms != nil && ms.Len != nil {
			return Ite(x.Nil, IntC(0), ms.Len)
		}
	case *ArrV:
		return IntC(int64(len(x.E)))
	case *PtrV:
		if a, ok := t.Underlying().(*types.Pointer); ok {
			if at, ok := a.Elem().Underlying().(*types.Array); ok {
				return IntC(at.Len())
			}
		}
	}
	if a, ok := t.Underlying().(*types.Array); ok {
		return IntC(a.Len())
	}
	l := ex.G.FreshInt("len", types.Typ[types.Int])
	ex.G.facts[l.Name] = append(ex.G.facts[l.Name], Ge(l, IntC(0)))
	return l
}

func (ex *Exec) builtin(st *State, fr *Frame, ins ssa.Instruction, b *ssa.Builtin, c *ssa.CallCommon, args []Value, dst ssa.Value) {
	switch b.Name() {
	case "len":
		ex.setResult(st, fr, dst, ex.lenOf(st, args[0], c.Args[0].Type()))
	case "cap":
		if s, ok := args[0].(*SliceV); ok {
			ex.setResult(st, fr, dst, s.Cap)
		} else {
			ex.setResult(st, fr, dst, ex.lenOf(st, args[0], c.Args[0].Type()))
		}
	case "append":
		// appending to a byte slice with spare capacity writes into the SAME backing array (visible through every
		// other slice of it); otherwise a fresh array is allocated. Both outcomes are explored when the capacity does
		// not decide it. (Other element types: always a fresh array - see dropped_by_translation.)
		if s, ok := args[0].(*SliceV); ok && isByte(s.Elem) && s.Obj != nil && s.Cap != nil {
			var lb *Term
			switch y := args[1].(type) {
			case *SliceV:
				lb = y.Len
			case *Term:
				if y.Sort == SB {
					lb = ex.G.BLen(y)
				}
			}
			if lb != nil && !(lb.IsConstInt() && lb.I.Sign() == 0) {
				fits := Le(Add(s.Len, lb), s.Cap)
				switch st.Decide(fits) {
				case 1:
					if res, ok := ex.appendInPlace(st, s, args[1], lb); ok {
						ex.setResult(st, fr, dst, res)
						ex.event(st, &Event{Callee: "slice.append", Args: args, Results: []Value{res}, Instr: ins, Fn: fr.Fn, Kind: "append"})
						return
					}
				case 0:
					other := ex.fork(st)
					other.Assume(fits)
					if !other.Dead {
						if res, ok := ex.appendInPlace(other, s, args[1], lb); ok {
							of := other.Top()
							if dst != nil {
								of.Locals[dst] = res
							}
							ex.event(other, &Event{Callee: "slice.append", Args: args, Results: []Value{res}, Instr: ins, Fn: of.Fn, Kind: "append"})
							ex.push(other)
						}
					}
					st.Assume(Not(fits))
				}
			}
		}
		res := ex.appendOp(st, args[0], args[1], c.Args[0].Type())
		ex.setResult(st, fr, dst, res)
		// "slice.append": a0 = the slice appended to, a1 = the appended elements (a slice), ar0 = the result
		ex.event(st, &Event{Callee: "slice.append", Args: args, Results: []Value{res}, Instr: ins, Fn: fr.Fn, Kind: "append"})
	case "copy":
		ex.setResult(st, fr, dst, ex.copyOp(st, args[0], args[1]))
	case "delete":
		m, ok := args[0].(*MapV)
		if ok {
			if ms := ex.mapState(st, m); ms != nil {
				k := ex.keyTerm(args[1])
				if k.Sort == arrKeySort(ms.Has.Sort) {
					had := Select(ms.Has, k)
					st.Assume(Implies(had, Ge(ms.Len, IntC(1)))) // a map holding a key has at least one entry
					st.Heap[m.Obj] = &MapState{Has: Store(ms.Has, k, TFalse), Vals: ms.Vals, Len: Ite(had, Sub(ms.Len, IntC(1)), ms.Len)}
				}
			}
		}
		ex.event(st, &Event{Callee: "map.delete", Args: args, Instr: ins, Fn: fr.Fn, Kind: "mapdelete"})
	case "close":
		ex.event(st, &Event{Callee: "chan.close", Args: args, Instr: ins, Fn: fr.Fn, Kind: "close"})
	case "max", "min":
		r := ex.asTerm(args[0])
		for _, a := range args[1:] {
			t := ex.asTerm(a)
			if r.Sort != SInt {
				r = ex.G.Fresh(c.Args[0].Type(), "minmax").(*Term)
				break
			}
			if b.Name() == "max" {
				r = Ite(Ge(r, t), r, t)
			} else {
				r = Ite(Le(r, t), r, t)
			}
		}
		ex.setResult(st, fr, dst, r)
	case "recover":
		ex.setResult(st, fr, dst, &IfaceV{ID: IntC(0)})
	case "print", "println":
	default:
		ex.Unsupported["builtin "+b.Name()]++
		if dst != nil {
			ex.setResult(st, fr, dst, ex.G.Fresh(dst.Type(), "builtin"))
		}
	}
}

func (ex *Exec) appendOp(st *State, a, b Value, t types.Type) Value {
	s, ok := a.(*SliceV)
	if !ok {
		return ex.G.Fresh(t, "append")
	}
	elem := t.Underlying().(*types.Slice).Elem()
	if isByte(elem) {
		ca := ex.sliceBytes(st, s)
		var cb *Term
		switch y := b.(type) {
		case *SliceV:
			cb = ex.sliceBytes(st, y)
		case *Term:
			cb = y
		default:
			cb = ex.G.FreshBytes("appended", -1)
		}
		content := ex.G.BCat(ca, cb)
		obj := ex.G.NewObject(t, "append")
		st.Heap[obj] = content
		l := ex.G.BLen(content)
		return &SliceV{Nil: TFalse, Obj: obj, Off: IntC(0), Len: l, Cap: l, Elem: elem}
	}
	y, ok := b.(*SliceV)
	if !ok {
		return ex.G.Fresh(t, "append")
	}
	if y.Len.IsConstInt() && y.Len.I.Sign() == 0 {
		return s
	}
	obj := ex.G.NewObject(t, "append")
	newLen := Add(s.Len, y.Len)
	if s.Len.IsConstInt() && y.Len.IsConstInt() && newLen.I.Int64() <= 64 {
		arr := &ArrV{Elem: elem}
		for i := int64(0); i < s.Len.I.Int64(); i++ {
			arr.E = append(arr.E, ex.sliceElem(st, s, IntC(i)))
		}
		for i := int64(0); i < y.Len.I.Int64(); i++ {
			arr.E = append(arr.E, ex.sliceElem(st, y, IntC(i)))
		}
		st.Heap[obj] = arr
		return &SliceV{Nil: TFalse, Obj: obj, Off: IntC(0), Len: newLen, Cap: newLen, Elem: elem}
	}
	ex.G.n++
	seq := &SymSeq{ID: ex.G.n, Elem: elem, Name: "appended", Known: map[string]Value{}}
	// carry over known elements of s when it starts at offset 0
	if s.Obj != nil {
		if old, ok := ex.readPath(st, ex.objVal(st, s.Obj), s.Path, s.Obj.Typ).(*SymSeq); ok && s.Off.IsConstInt() && s.Off.I.Sign() == 0 {
			for k, v := range old.Known {
				seq.Known[k] = v
			}
		}
	}
	if y.Len.IsConstInt() {
		for i := int64(0); i < y.Len.I.Int64() && i < 16; i++ {
			seq.Known[Add(s.Len, IntC(i)).Key()] = ex.sliceElem(st, y, IntC(i))
		}
	}
	st.Heap[obj] = seq
	capT := ex.G.FreshInt("cap", types.Typ[types.Int])
	ex.G.facts[capT.Name] = append(ex.G.facts[capT.Name], Ge(capT, newLen))
	return &SliceV{Nil: TFalse, Obj: obj, Off: IntC(0), Len: newLen, Cap: capT, Elem: elem}
}

// appendInPlace writes the appended bytes behind the slice into its own backing array.
func (ex *Exec) appendInPlace(st *State, s *SliceV, b Value, lb *Term) (Value, bool) {
	var cb *Term
	switch y := b.(type) {
	case *SliceV:
		cb = ex.sliceBytes(st, y)
	case *Term:
		cb = y
	}
	if cb == nil {
		return nil, false
	}
	root := ex.objVal(st, s.Obj)
	back, ok := ex.readPath(st, root, s.Path, s.Obj.Typ).(*Term)
	if !ok || back.Sort != SB {
		return nil, false
	}
	total := ex.G.BLen(back)
	at := Add(s.Off, s.Len)
	end := Add(at, lb)
	nb := ex.G.BCat(ex.G.BCat(ex.G.BSub(back, IntC(0), at), cb), ex.G.BSub(back, end, Sub(total, end)))
	ex.G.lens[nb.Key()] = total
	st.Heap[s.Obj] = ex.writePath(st, root, s.Path, nb, s.Obj.Typ)
	ex.markWritten(st, s.Obj)
	return &SliceV{Nil: TFalse, Obj: s.Obj, Path: s.Path, Off: s.Off, Len: Add(s.Len, lb), Cap: s.Cap, Elem: s.Elem}, true
}

func (ex *Exec) sliceElem(st *State, s *SliceV, i *Term) Value {
	if s.Obj == nil {
		return ex.G.Zero(s.Elem)
	}
	p := &PtrV{Nil: TFalse, Obj: s.Obj, Path: append(append([]PathEl(nil), s.Path...), PathEl{Idx: Add(s.Off, i)})}
	return ex.load(st, p, s.Elem)
}

func (ex *Exec) copyOp(st *State, a, b Value) Value {
	d, ok := a.(*SliceV)
	if !ok {
		return ex.G.Fresh(types.Typ[types.Int], "copy")
	}
	var srcLen *Term
	var srcContent *Term
	switch y := b.(type) {
	case *SliceV:
		srcLen = y.Len
		if isByte(d.Elem) {
			srcContent = ex.sliceBytes(st, y)
		}
	case *Term:
		srcLen = ex.G.BLen(y)
		srcContent = y
	default:
		return ex.G.Fresh(types.Typ[types.Int], "copy")
	}
	n := Ite(Le(d.Len, srcLen), d.Len, srcLen)
	if d.Obj == nil {
		return n
	}
	if isByte(d.Elem) && srcContent != nil {
		root := ex.objVal(st, d.Obj)
		back, ok := ex.readPath(st, root, d.Path, d.Obj.Typ).(*Term)
		if ok && back.Sort == SB {
			total := ex.G.BLen(back)
			end := Add(d.Off, n)
			nb := ex.G.BCat(ex.G.BCat(ex.G.BSub(back, IntC(0), d.Off), ex.G.BSub(srcContent, IntC(0), n)), ex.G.BSub(back, end, Sub(total, end)))
			ex.G.lens[nb.Key()] = total
			st.Heap[d.Obj] = ex.writePath(st, root, d.Path, nb, d.Obj.Typ)
			return n
		}
	}
	ex.havocReach(st, d, map[*Object]bool{})
	return n
}

// markLib flags error results of external library calls.
func markLib(v Value) {
	switch x := v.(type) {
	case *IfaceV:
		if x.Dyn == nil {
			x.Lib = true
		}
	case *TupleV:
		for _, e := range x.E {
			markLib(e)
		}
	}
}

// moduleOf: the module-level prefix (host/owner/repo, or the first element for the standard library) of a callee name.
func moduleOf(name string) string {
	n := strings.TrimLeft(name, "(*")
	parts := strings.Split(n, "/")
	if len(parts) >= 3 && strings.Contains(parts[0], ".") {
		last := parts[2]
		if i := strings.IndexAny(last, ".)"); i >= 0 {
			last = last[:i]
		}
		return parts[0] + "/" + parts[1] + "/" + last
	}
	first := parts[0]
	if i := strings.IndexAny(first, ".)"); i >= 0 {
		first = first[:i]
	}
	return first
}

func markOrigin(v Value, origin string) {
	switch x := v.(type) {
	case *IfaceV:
		if x.Lib && x.Origin == "" {
			x.Origin = origin
		}
	case *TupleV:
		for _, e := range x.E {
			markOrigin(e, origin)
		}
	}
}

var traceCalls = os.Getenv("GOCV_TRACE") == "3"

// evalClosure runs a function value on the given arguments in a scratch copy of the state and returns the
// results of all its paths (used by models of higher-order library functions to inspect a callback).
func (ex *Exec) evalClosure(st *State, fv *FuncV, args []Value) ([]Value, bool) {
	if fv == nil || fv.Fn == nil || len(fv.Fn.Blocks) == 0 {
		return nil, false
	}
	sub := st.Clone()
	fr := &Frame{Fn: fv.Fn, Block: fv.Fn.Blocks[0], Locals: map[ssa.Value]Value{}, Bind: fv.Bind, LoopHit: map[*ssa.BasicBlock]int{}, Cut: map[*ssa.BasicBlock]bool{}, Args: args}
	for i, p := range fv.Fn.Params {
		if i < len(args) {
			fr.Locals[p] = args[i]
		}
	}
	sub.Frames = []*Frame{fr}
	saveWork, saveObls, savePaths := ex.work, len(ex.Obls), ex.paths
	var results []Value
	ex.subCollect = &results
	ex.work = []*State{sub}
	for len(ex.work) > 0 && ex.paths-savePaths < 200 {
		s := ex.work[len(ex.work)-1]
		ex.work = ex.work[:len(ex.work)-1]
		ex.paths++
		ex.runPath(s)
	}
	complete := len(ex.work) == 0
	ex.subCollect = nil
	ex.work = saveWork
	ex.Obls = ex.Obls[:saveObls]
	ex.paths = savePaths
	return results, complete
}
