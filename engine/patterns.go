package main

import (
	"fmt"
	"go/ast"
	"go/token"
	"go/types"
	"sort"
	"strconv"
	"strings"

	"golang.org/x/tools/go/ssa"
)

// Vacuity guard for temporal clauses: a `never`, `precede` or `respond` clause whose event pattern is mis-spelt
// matches nothing and therefore "holds" on every tree. Every pattern written in a contract (A:, B:, orB:, and the
// string arguments of called / lastResult / lastArg) must match the name of at least one event that the loaded
// program can produce somewhere: a call, goroutine start or deferred call site of the repository's own code, a
// function of the repository (events of inlined callees carry the function's name), or a built-in pseudo event.
// A pattern that matches nothing is a contract error (exit 3, no VIOLATION line).

var pseudoEvents = []string{"map.update", "map.delete", "map.next", "range.next", "mem.store", "chan.send", "chan.recv", "chan.close",
	"chan.select.recv", "chan.select.send", "return", "slice.append"}

// ifaceNames: the named interface types of the repository's packages (filled by validatePatterns).
var ifaceNames []string

// extraNames: methods of the repository's types (whether or not anything still calls them).
var extraNames []string

func staticEventNames(fns map[string]*ssa.Function) []string {
	set := map[string]bool{}
	add := func(n string) { set[strings.ReplaceAll(n, modulePrefix+"/", "")] = true }
	for _, p := range pseudoEvents {
		add(p)
	}
	for k := 0; k < 16; k++ {
		add(fmt.Sprintf("range.next#%d", k)) // a step of the k-th loop (ordinal as in loop#k)
		add(fmt.Sprintf("map.next#%d", k))
	}
	for _, n := range extraNames {
		add(n)
	}
	for name, f := range fns {
		// every function of the program is a possible callee name: a pattern is vacuous when it is MIS-SPELT, not when
		// a change to the code removed the last call of the function it names (that must surface as a violation of the
		// clause, not as a contract error)
		add(name)
		add(canonFn(name))
		add("go:" + canonFn(name))
		if f.Signature != nil && f.Signature.Recv() != nil {
			// an interface method is called under the interface's name: (pkg.Iface).Method
			for _, it := range ifaceNames {
				add("(" + it + ")." + f.Name())
			}
		}
		if !strings.Contains(name, modulePrefix) {
			continue
		}
		for _, b := range f.Blocks {
			for _, ins := range b.Instrs {
				var c *ssa.CallCommon
				pre := ""
				switch v := ins.(type) {
				case *ssa.Call:
					c = &v.Call
				case *ssa.Defer:
					c = &v.Call
				case *ssa.Go:
					c = &v.Call
					pre = "go:"
				default:
					continue
				}
				n := calleeName(c)
				if n == "dynamic" {
					n = "dyn:" + ssaText(c.Value, 0)
				}
				add(pre + n)
			}
		}
	}
	var out []string
	for n := range set {
		out = append(out, n)
	}
	sort.Strings(out)
	return out
}

func specStrings(e *specExpr, out *[]string) {
	if e == nil {
		return
	}
	specStrings(e.L, out)
	specStrings(e.R, out)
	for _, s := range e.Subs {
		specStrings(s, out)
	}
	if e.E == nil {
		return
	}
	ast.Inspect(e.E, func(n ast.Node) bool {
		ce, ok := n.(*ast.CallExpr)
		if !ok {
			return true
		}
		id, ok := ce.Fun.(*ast.Ident)
		if !ok || (id.Name != "called" && id.Name != "lastResult" && id.Name != "lastArg") || len(ce.Args) == 0 {
			return true
		}
		if bl, ok := ce.Args[0].(*ast.BasicLit); ok && bl.Kind == token.STRING {
			if s, err := strconv.Unquote(bl.Value); err == nil {
				*out = append(*out, s)
			}
		}
		return true
	})
}

// validatePatterns returns one message per pattern of the given contracts that can never match.
func validatePatterns(cts []*Contract, fns map[string]*ssa.Function) []string {
	ifaceNames, extraNames = nil, nil
	seenPkg := map[*ssa.Package]bool{}
	for _, f := range fns {
		if f.Pkg == nil || seenPkg[f.Pkg] || !strings.HasPrefix(f.Pkg.Pkg.Path(), modulePrefix) {
			continue
		}
		seenPkg[f.Pkg] = true
		for _, m := range f.Pkg.Members {
			if t, ok := m.(*ssa.Type); ok {
				if _, isIface := t.Type().Underlying().(*types.Interface); isIface {
					ifaceNames = append(ifaceNames, strings.ReplaceAll(f.Pkg.Pkg.Path(), modulePrefix+"/", "")+"."+t.Name())
					continue
				}
				// methods that nothing calls any more are still names a clause may mention
				for _, recv := range []types.Type{t.Type(), types.NewPointer(t.Type())} {
					ms := f.Pkg.Prog.MethodSets.MethodSet(recv)
					for i := 0; i < ms.Len(); i++ {
						if mf := f.Pkg.Prog.MethodValue(ms.At(i)); mf != nil {
							extraNames = append(extraNames, mf.String())
						}
					}
				}
			}
		}
	}
	sort.Strings(ifaceNames)
	names := staticEventNames(fns)
	matches := func(pat string) bool {
		if strings.HasPrefix(pat, "dyn:") {
			// dyn:<expr> names a call through a parameter or field of the function under contract
			for _, n := range names {
				if strings.HasPrefix(n, "dyn:") && nameMatches(n, pat) {
					return true
				}
			}
			return false
		}
		for _, n := range names {
			if nameMatches(n, pat) {
				return true
			}
		}
		return false
	}
	var errs []string
	for _, ct := range cts {
		for _, t := range ct.Temporal {
			pats := []string{t.A}
			if t.B != "" {
				pats = append(pats, t.B)
			}
			if t.B2 != "" {
				pats = append(pats, t.B2)
			}
			for _, e := range []*specExpr{t.Cond, t.Cond2, t.When, t.Unless} {
				specStrings(e, &pats)
			}
			for _, p := range pats {
				if !matches(p) {
					errs = append(errs, fmt.Sprintf("%s: event pattern %q matches no call site, function or pseudo event of the loaded program (vacuous clause)", t.Line, p))
				}
			}
		}
		for _, cl := range append(append([]*Clause(nil), ct.Ensures...), ct.Requires...) {
			var pats []string
			specStrings(&cl.Expr, &pats)
			for _, p := range pats {
				if !matches(p) {
					errs = append(errs, fmt.Sprintf("%s: event pattern %q matches nothing (vacuous)", ct.Key, p))
				}
			}
		}
	}
	return errs
}
