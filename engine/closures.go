package main

import (
	"encoding/json"
	"go/types"
	"os"
	"path/filepath"
	"sort"
	"strings"

	"golang.org/x/tools/go/ssa"
)

// Closures are named by ordinal in go/ssa (F$1, F$2, F$1$1 ...), and contracts, event patterns and isfunc() name them
// that way. A harmless edit that adds a func literal in front of the others shifts the ordinals. To keep the contracts
// attached to the closures they were written for, the signature baseline records a fingerprint of every closure of a
// function under contract (its signature and the names of what it calls); when the program is loaded, each recorded
// closure is matched to the current closure of the same parent with the same signature and the most similar callee
// set, and names are translated through that matching everywhere a contract meets the program.

type closureFP struct {
	Name  string   `json:"name"`
	Sig   string   `json:"sig"`
	Calls []string `json:"calls"`
}

func fingerprint(f *ssa.Function) closureFP {
	set := map[string]bool{}
	for _, b := range f.Blocks {
		for _, ins := range b.Instrs {
			var c *ssa.CallCommon
			switch v := ins.(type) {
			case *ssa.Call:
				c = &v.Call
			case *ssa.Defer:
				c = &v.Call
			case *ssa.Go:
				c = &v.Call
			default:
				continue
			}
			n := calleeName(c)
			if strings.HasPrefix(n, "builtin.") || n == "dynamic" || strings.Contains(n, "$") {
				continue
			}
			set[strings.ReplaceAll(n, modulePrefix+"/", "")] = true
		}
	}
	var calls []string
	for k := range set {
		calls = append(calls, k)
	}
	sort.Strings(calls)
	return closureFP{Name: strings.ReplaceAll(f.String(), modulePrefix+"/", ""), Sig: f.Signature.String(), Calls: calls}
}

func allClosures(f *ssa.Function) []*ssa.Function {
	var out []*ssa.Function
	for _, a := range f.AnonFuncs {
		out = append(out, a)
		out = append(out, allClosures(a)...)
	}
	return out
}

func jaccard(a, b []string) float64 {
	if len(a) == 0 && len(b) == 0 {
		return 1
	}
	m := map[string]bool{}
	for _, x := range a {
		m[x] = true
	}
	inter := 0
	for _, x := range b {
		if m[x] {
			inter++
		}
	}
	union := len(a) + len(b) - inter
	if union == 0 {
		return 1
	}
	return float64(inter) / float64(union)
}

// closureToBaseline maps the current (short) name of a closure to the name it had when the contracts were written;
// baselineToClosure is the inverse. Both are identity for closures that did not move.
var closureToBaseline = map[string]string{}
var baselineToClosure = map[string]string{}

func buildClosureAliases(fns map[string]*ssa.Function) {
	closureToBaseline, baselineToClosure = map[string]string{}, map[string]string{}
	base := loadSignatureBaseline()
	for parent, sn := range base {
		if len(sn.Closures) == 0 || strings.Contains(parent, "$") {
			continue
		}
		pf := fns[qualifyAny(parent)]
		if pf == nil {
			continue
		}
		cur := allClosures(pf)
		curFP := make([]closureFP, len(cur))
		for i, c := range cur {
			curFP[i] = fingerprint(c)
		}
		used := map[int]bool{}
		matched := map[int]int{} // baseline index -> current index
		// pass 1: same name, same signature, similar body
		for bi, b := range sn.Closures {
			for ci := range cur {
				if !used[ci] && curFP[ci].Name == b.Name && curFP[ci].Sig == b.Sig && jaccard(b.Calls, curFP[ci].Calls) >= 0.6 {
					used[ci], matched[bi] = true, ci
					break
				}
			}
		}
		// pass 2: best remaining candidate with the same signature
		for bi, b := range sn.Closures {
			if _, ok := matched[bi]; ok {
				continue
			}
			best, bestScore := -1, 0.34
			for ci := range cur {
				if used[ci] || curFP[ci].Sig != b.Sig {
					continue
				}
				if s := jaccard(b.Calls, curFP[ci].Calls); s > bestScore {
					best, bestScore = ci, s
				}
			}
			if best >= 0 {
				used[best], matched[bi] = true, best
			}
		}
		for bi, ci := range matched {
			if curFP[ci].Name != sn.Closures[bi].Name {
				closureToBaseline[curFP[ci].Name] = sn.Closures[bi].Name
				baselineToClosure[sn.Closures[bi].Name] = curFP[ci].Name
			}
		}
		// a current closure that took over the NAME of a moved baseline closure must not be mistaken for it
		for ci := range cur {
			if !used[ci] {
				if _, taken := baselineToClosure[curFP[ci].Name]; taken {
					closureToBaseline[curFP[ci].Name] = curFP[ci].Name + "#new"
				}
			}
		}
	}
}

// canonFn translates a (short or qualified) current function name into the name the contracts use.
func canonFn(name string) string {
	if len(closureToBaseline) == 0 {
		return name
	}
	short := strings.ReplaceAll(name, modulePrefix+"/", "")
	pre := ""
	if strings.HasPrefix(short, "go:") {
		pre, short = "go:", short[3:]
	}
	if b, ok := closureToBaseline[short]; ok {
		return pre + b
	}
	// a closure of a renamed function
	if i := strings.Index(short, "$"); i > 0 {
		if b, ok := closureToBaseline[short[:i]]; ok {
			return pre + b + short[i:]
		}
	}
	return name
}

// buildFunctionAliases: a function under contract that no longer exists under its name is looked for among the
// functions of the same package that the baseline does not know: same receiver kind, same signature, similar callees.
func buildFunctionAliases(fns map[string]*ssa.Function, contracts map[string]*Contract) {
	base := loadSignatureBaseline()
	known := map[string]bool{}
	for n := range base {
		known[n] = true
	}
	for full := range contracts {
		key := full
		if i := strings.Index(key, "@"); i >= 0 {
			key = key[:i]
		}
		if strings.Contains(key, "$") || fns[key] != nil {
			continue
		}
		short := strings.ReplaceAll(key, modulePrefix+"/", "")
		b, ok := base[short]
		if !ok || b.FP == nil {
			continue
		}
		pkgOf := func(n string) string {
			n = strings.TrimLeft(n, "(*")
			if i := strings.Index(n, "."); i >= 0 {
				return n[:i]
			}
			return n
		}
		recvOf := func(n string) string {
			if strings.HasPrefix(n, "(") {
				if i := strings.Index(n, ")"); i > 0 {
					return n[:i+1]
				}
			}
			return ""
		}
		best, score := "", 0.5
		for cn, cf := range fns {
			cs := strings.ReplaceAll(cn, modulePrefix+"/", "")
			if cs == cn || known[cs] || strings.Contains(cs, "$") || len(cf.Blocks) == 0 {
				continue
			}
			if pkgOf(cs) != pkgOf(short) || recvOf(cs) != recvOf(short) || cf.Signature.String() != b.FP.Sig {
				continue
			}
			if s := jaccard(b.FP.Calls, fingerprint(cf).Calls); s > score || (s == score && cs < best) {
				best, score = cs, s
			}
		}
		if best != "" {
			closureToBaseline[best] = short
			baselineToClosure[short] = best
		}
	}
}

// Loops are named by ordinal too (loop#k in contracts: invariants, peel). The baseline records a fingerprint per loop
// (what its body calls, and what kind of header it has); baselineLoop translates the ordinal of a CURRENT loop into the
// ordinal it had when the contracts were written (or -1 for a loop that did not exist then).
type loopFP struct {
	Ordinal int      `json:"ordinal"`
	Kind    string   `json:"kind"`
	Calls   []string `json:"calls"`
}

func loopFingerprints(fn *ssa.Function) []loopFP {
	var out []loopFP
	if len(fn.Blocks) == 0 {
		return out
	}
	for _, lp := range computeLoops(fn).Loops {
		set := map[string]bool{}
		kind := "for"
		for _, ins := range lp.Header.Instrs {
			switch v := ins.(type) {
			case *ssa.Next:
				if v.IsString {
					kind = "range-string"
				} else {
					kind = "range-map"
				}
			case *ssa.UnOp:
				if v.Op.String() == "<-" {
					kind = "range-chan"
				}
			}
		}
		for b := range lp.Body {
			for _, ins := range b.Instrs {
				var c *ssa.CallCommon
				switch v := ins.(type) {
				case *ssa.Call:
					c = &v.Call
				case *ssa.Defer:
					c = &v.Call
				case *ssa.Go:
					c = &v.Call
				case *ssa.Select:
					set["select"] = true
					continue
				default:
					continue
				}
				n := calleeName(c)
				if strings.HasPrefix(n, "builtin.") || n == "dynamic" {
					continue
				}
				set[strings.ReplaceAll(n, modulePrefix+"/", "")] = true
			}
		}
		var calls []string
		for k := range set {
			calls = append(calls, k)
		}
		sort.Strings(calls)
		out = append(out, loopFP{Ordinal: lp.Ordinal, Kind: kind, Calls: calls})
	}
	return out
}

var loopAliasMemo = map[*ssa.Function]map[int]int{}

// baselineLoopOrdinal: current ordinal -> ordinal in the contracts.
func baselineLoopOrdinal(fn *ssa.Function, cur int) int {
	m, ok := loopAliasMemo[fn]
	if !ok {
		m = map[int]int{}
		base, have := loadSignatureBaseline()[canonFn(strings.ReplaceAll(fn.String(), modulePrefix+"/", ""))]
		now := loopFingerprints(fn)
		if !have || len(base.Loops) == 0 {
			for _, l := range now {
				m[l.Ordinal] = l.Ordinal
			}
		} else {
			used := map[int]bool{}
			matchedBase := map[int]bool{}
			// same ordinal, same kind, similar body
			for _, b := range base.Loops {
				for _, l := range now {
					if l.Ordinal == b.Ordinal && l.Kind == b.Kind && jaccard(b.Calls, l.Calls) >= 0.6 && !used[l.Ordinal] {
						m[l.Ordinal], used[l.Ordinal], matchedBase[b.Ordinal] = b.Ordinal, true, true
					}
				}
			}
			for _, b := range base.Loops {
				if matchedBase[b.Ordinal] {
					continue
				}
				best, score := -1, 0.34
				for _, l := range now {
					if used[l.Ordinal] || l.Kind != b.Kind {
						continue
					}
					if s := jaccard(b.Calls, l.Calls); s > score {
						best, score = l.Ordinal, s
					}
				}
				if best >= 0 {
					m[best], used[best], matchedBase[b.Ordinal] = b.Ordinal, true, true
				}
			}
			// what is left over on both sides: when it is the same number of loops of the same kinds in the same order,
			// they are the same loops with changed bodies (a helper extracted from the body changes every callee name)
			var restBase, restNow []loopFP
			for _, b := range base.Loops {
				if !matchedBase[b.Ordinal] {
					restBase = append(restBase, b)
				}
			}
			for _, l := range now {
				if !used[l.Ordinal] {
					restNow = append(restNow, l)
				}
			}
			if len(restBase) == len(restNow) {
				same := true
				for i := range restBase {
					if restBase[i].Kind != restNow[i].Kind {
						same = false
					}
				}
				if same {
					for i := range restBase {
						m[restNow[i].Ordinal], used[restNow[i].Ordinal] = restBase[i].Ordinal, true
					}
				}
			}
			for _, l := range now {
				if !used[l.Ordinal] {
					m[l.Ordinal] = -1
				}
			}
		}
		loopAliasMemo[fn] = m
	}
	if v, ok := m[cur]; ok {
		return v
	}
	return cur
}

// Struct fields that a contract mentions by name: the baseline records, for every named struct type of the repository,
// its fields in order (name and type). A field name that no longer exists is looked up there: if a recorded struct has
// the same number of fields with the same types in the same order as the struct at hand and contains the name, the
// field at that position is meant (a renamed field).
type fieldRec struct {
	Name string `json:"name"`
	Type string `json:"type"`
}

var structBaseline map[string][]fieldRec

func loadStructBaseline() map[string][]fieldRec {
	if structBaseline != nil {
		return structBaseline
	}
	structBaseline = map[string][]fieldRec{}
	if b, err := os.ReadFile(filepath.Join(verifRoot, "structs.baseline.json")); err == nil {
		json.Unmarshal(b, &structBaseline)
	}
	return structBaseline
}

func updateStructBaseline(ld *Loaded) {
	m := loadStructBaseline()
	for _, p := range ld.Prog.AllPackages() {
		if !strings.HasPrefix(p.Pkg.Path(), modulePrefix) {
			continue
		}
		for _, mem := range p.Members {
			t, ok := mem.(*ssa.Type)
			if !ok {
				continue
			}
			st, ok := t.Type().Underlying().(*types.Struct)
			if !ok {
				continue
			}
			var fs []fieldRec
			for i := 0; i < st.NumFields(); i++ {
				fs = append(fs, fieldRec{st.Field(i).Name(), types.TypeString(st.Field(i).Type(), nil)})
			}
			m[strings.ReplaceAll(p.Pkg.Path(), modulePrefix+"/", "")+"."+t.Name()] = fs
		}
	}
	b, _ := json.MarshalIndent(m, "", " ")
	os.WriteFile(filepath.Join(verifRoot, "structs.baseline.json"), b, 0o644)
}

// baselineFieldIndex: position of the field that was called name when the contracts were written, or -1.
func baselineFieldIndex(st *types.Struct, name string) int {
	found := -1
	for _, fs := range loadStructBaseline() {
		if len(fs) != st.NumFields() {
			continue
		}
		idx, same := -1, true
		for i, f := range fs {
			if f.Type != types.TypeString(st.Field(i).Type(), nil) {
				same = false
				break
			}
			if f.Name == name {
				idx = i
			}
		}
		if same && idx >= 0 {
			if found >= 0 && found != idx {
				return -1 // ambiguous
			}
			found = idx
		}
	}
	return found
}
