package main

import (
	"sort"
	"strings"

	"golang.org/x/tools/go/ssa"
)

// Closures are named by ordinal in go/ssa (F$1, F$2, F$1$1 ...), and contracts, event patterns and isfunc() name them
// that way. A harmless edit that adds a func literal in front of the others shifts the ordinals. To keep the contracts
// attached to the closures they were written for, the signature baseline records a fingerprint of every closure of a
// function under contract (its signature and the names of what it calls); when the program is loaded, each recorded
// closure is matched to the current closure of the same parent with the same signature and the most similar callee
// set, and names are translated through that matching everywhere a contract meets the program.

type closureFP struct {
	Name  string   `json:"name"`
	Sig   string   `json:"sig"`
	Calls []string `json:"calls"`
}

func fingerprint(f *ssa.Function) closureFP {
	set := map[string]bool{}
	for _, b := range f.Blocks {
		for _, ins := range b.Instrs {
			var c *ssa.CallCommon
			switch v := ins.(type) {
			case *ssa.Call:
				c = &v.Call
			case *ssa.Defer:
				c = &v.Call
			case *ssa.Go:
				c = &v.Call
			default:
				continue
			}
			n := calleeName(c)
			if strings.HasPrefix(n, "builtin.") || n == "dynamic" || strings.Contains(n, "$") {
				continue
			}
			set[strings.ReplaceAll(n, modulePrefix+"/", "")] = true
		}
	}
	var calls []string
	for k := range set {
		calls = append(calls, k)
	}
	sort.Strings(calls)
	return closureFP{Name: strings.ReplaceAll(f.String(), modulePrefix+"/", ""), Sig: f.Signature.String(), Calls: calls}
}

func allClosures(f *ssa.Function) []*ssa.Function {
	var out []*ssa.Function
	for _, a := range f.AnonFuncs {
		out = append(out, a)
		out = append(out, allClosures(a)...)
	}
	return out
}

func jaccard(a, b []string) float64 {
	if len(a) == 0 && len(b) == 0 {
		return 1
	}
	m := map[string]bool{}
	for _, x := range a {
		m[x] = true
	}
	inter := 0
	for _, x := range b {
		if m[x] {
			inter++
		}
	}
	union := len(a) + len(b) - inter
	if union == 0 {
		return 1
	}
	return float64(inter) / float64(union)
}

// closureToBaseline maps the current (short) name of a closure to the name it had when the contracts were written;
// baselineToClosure is the inverse. Both are identity for closures that did not move.
var closureToBaseline = map[string]string{}
var baselineToClosure = map[string]string{}

func buildClosureAliases(fns map[string]*ssa.Function) {
	closureToBaseline, baselineToClosure = map[string]string{}, map[string]string{}
	base := loadSignatureBaseline()
	for parent, sn := range base {
		if len(sn.Closures) == 0 || strings.Contains(parent, "$") {
			continue
		}
		pf := fns[qualifyAny(parent)]
		if pf == nil {
			continue
		}
		cur := allClosures(pf)
		curFP := make([]closureFP, len(cur))
		for i, c := range cur {
			curFP[i] = fingerprint(c)
		}
		used := map[int]bool{}
		matched := map[int]int{} // baseline index -> current index
		// pass 1: same name, same signature, similar body
		for bi, b := range sn.Closures {
			for ci := range cur {
				if !used[ci] && curFP[ci].Name == b.Name && curFP[ci].Sig == b.Sig && jaccard(b.Calls, curFP[ci].Calls) >= 0.6 {
					used[ci], matched[bi] = true, ci
					break
				}
			}
		}
		// pass 2: best remaining candidate with the same signature
		for bi, b := range sn.Closures {
			if _, ok := matched[bi]; ok {
				continue
			}
			best, bestScore := -1, 0.34
			for ci := range cur {
				if used[ci] || curFP[ci].Sig != b.Sig {
					continue
				}
				if s := jaccard(b.Calls, curFP[ci].Calls); s > bestScore {
					best, bestScore = ci, s
				}
			}
			if best >= 0 {
				used[best], matched[bi] = true, best
			}
		}
		for bi, ci := range matched {
			if curFP[ci].Name != sn.Closures[bi].Name {
				closureToBaseline[curFP[ci].Name] = sn.Closures[bi].Name
				baselineToClosure[sn.Closures[bi].Name] = curFP[ci].Name
			}
		}
		// a current closure that took over the NAME of a moved baseline closure must not be mistaken for it
		for ci := range cur {
			if !used[ci] {
				if _, taken := baselineToClosure[curFP[ci].Name]; taken {
					closureToBaseline[curFP[ci].Name] = curFP[ci].Name + "#new"
				}
			}
		}
	}
}

// canonFn translates a (short or qualified) current function name into the name the contracts use.
func canonFn(name string) string {
	if len(closureToBaseline) == 0 || !strings.Contains(name, "$") {
		return name
	}
	short := strings.ReplaceAll(name, modulePrefix+"/", "")
	pre := ""
	if strings.HasPrefix(short, "go:") {
		pre, short = "go:", short[3:]
	}
	if b, ok := closureToBaseline[short]; ok {
		return pre + b
	}
	return name
}
