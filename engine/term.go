package main

import (
	"fmt"
	"math/big"
	"sort"
	"strings"
)

// Term is an SMT term. Terms are immutable and hash-consed by their printed form.
type Term struct {
	Op   string // "int","bool","var","app", or SMT operator
	Args []*Term
	Sort string
	I    *big.Int
	B    bool
	Name string
	key  string
}

const (
	SInt  = "Int"
	SBool = "Bool"
	SB    = "B" // byte strings (Go string, []byte content, [N]byte)
)

var (
	TTrue  = &Term{Op: "bool", B: true, Sort: SBool}
	TFalse = &Term{Op: "bool", B: false, Sort: SBool}
)

func (t *Term) Key() string {
	if t.key == "" {
		t.key = t.render()
	}
	return t.key
}
func (t *Term) String() string { return t.Key() }

func (t *Term) render() string {
	switch t.Op {
	case "int":
		if t.I.Sign() < 0 {
			return "(- " + new(big.Int).Neg(t.I).String() + ")"
		}
		return t.I.String()
	case "bool":
		if t.B {
			return "true"
		}
		return "false"
	case "var":
		return t.Name
	case "app":
		if len(t.Args) == 0 {
			return t.Name
		}
		var sb strings.Builder
		sb.WriteString("(" + t.Name)
		for _, a := range t.Args {
			sb.WriteString(" " + a.Key())
		}
		sb.WriteString(")")
		return sb.String()
	}
	var sb strings.Builder
	sb.WriteString("(" + t.Op)
	for _, a := range t.Args {
		sb.WriteString(" " + a.Key())
	}
	sb.WriteString(")")
	return sb.String()
}

func IntC(i int64) *Term       { return &Term{Op: "int", I: big.NewInt(i), Sort: SInt} }
func IntB(i *big.Int) *Term    { return &Term{Op: "int", I: new(big.Int).Set(i), Sort: SInt} }
func BoolC(b bool) *Term {
	if b {
		return TTrue
	}
	return TFalse
}
func Var(name, sort string) *Term { return &Term{Op: "var", Name: name, Sort: sort} }
func App(name, sort string, args ...*Term) *Term {
	return &Term{Op: "app", Name: name, Sort: sort, Args: args}
}

func (t *Term) IsConstInt() bool  { return t.Op == "int" }
func (t *Term) IsConstBool() bool { return t.Op == "bool" }
func (t *Term) IsTrue() bool      { return t.Op == "bool" && t.B }
func (t *Term) IsFalse() bool     { return t.Op == "bool" && !t.B }

func Not(a *Term) *Term {
	if a.IsConstBool() {
		return BoolC(!a.B)
	}
	if a.Op == "not" {
		return a.Args[0]
	}
	return &Term{Op: "not", Args: []*Term{a}, Sort: SBool}
}

func And(as ...*Term) *Term {
	var out []*Term
	seen := map[string]bool{}
	for _, a := range as {
		if a.IsTrue() {
			continue
		}
		if a.IsFalse() {
			return TFalse
		}
		if a.Op == "and" {
			for _, b := range a.Args {
				if !seen[b.Key()] {
					seen[b.Key()] = true
					out = append(out, b)
				}
			}
			continue
		}
		if !seen[a.Key()] {
			seen[a.Key()] = true
			out = append(out, a)
		}
	}
	for _, a := range out {
		if seen[Not(a).Key()] {
			return TFalse
		}
	}
	if len(out) == 0 {
		return TTrue
	}
	if len(out) == 1 {
		return out[0]
	}
	return &Term{Op: "and", Args: out, Sort: SBool}
}

func Or(as ...*Term) *Term {
	var out []*Term
	seen := map[string]bool{}
	for _, a := range as {
		if a.IsFalse() {
			continue
		}
		if a.IsTrue() {
			return TTrue
		}
		if a.Op == "or" {
			for _, b := range a.Args {
				if !seen[b.Key()] {
					seen[b.Key()] = true
					out = append(out, b)
				}
			}
			continue
		}
		if !seen[a.Key()] {
			seen[a.Key()] = true
			out = append(out, a)
		}
	}
	for _, a := range out {
		if seen[Not(a).Key()] {
			return TTrue
		}
	}
	if len(out) == 0 {
		return TFalse
	}
	if len(out) == 1 {
		return out[0]
	}
	return &Term{Op: "or", Args: out, Sort: SBool}
}

func Implies(a, b *Term) *Term {
	if a.IsTrue() {
		return b
	}
	if a.IsFalse() || b.IsTrue() {
		return TTrue
	}
	if b.IsFalse() {
		return Not(a)
	}
	return &Term{Op: "=>", Args: []*Term{a, b}, Sort: SBool}
}

func Iff(a, b *Term) *Term { return Eq(a, b) }

func Ite(c, a, b *Term) *Term {
	if c.IsTrue() {
		return a
	}
	if c.IsFalse() {
		return b
	}
	if a.Key() == b.Key() {
		return a
	}
	if a.Sort == SBool {
		if a.IsTrue() && b.IsFalse() {
			return c
		}
		if a.IsFalse() && b.IsTrue() {
			return Not(c)
		}
	}
	return &Term{Op: "ite", Args: []*Term{c, a, b}, Sort: a.Sort}
}

func Eq(a, b *Term) *Term {
	if a.Sort != b.Sort {
		panic(fmt.Sprintf("Eq sort mismatch: %s:%s vs %s:%s", a, a.Sort, b, b.Sort))
	}
	if a.Key() == b.Key() {
		return TTrue
	}
	if a.IsConstInt() && b.IsConstInt() {
		return BoolC(a.I.Cmp(b.I) == 0)
	}
	if a.IsConstBool() && b.IsConstBool() {
		return BoolC(a.B == b.B)
	}
	if a.Sort == SBool {
		if b.IsTrue() {
			return a
		}
		if b.IsFalse() {
			return Not(a)
		}
		if a.IsTrue() {
			return b
		}
		if a.IsFalse() {
			return Not(b)
		}
	}
	// distinct named byte-string constants
	if a.Op == "app" && b.Op == "app" && len(a.Args) == 0 && len(b.Args) == 0 &&
		strings.HasPrefix(a.Name, "strc_") && strings.HasPrefix(b.Name, "strc_") {
		return BoolC(a.Name == b.Name)
	}
	if a.Key() > b.Key() {
		a, b = b, a
	}
	return &Term{Op: "=", Args: []*Term{a, b}, Sort: SBool}
}

func Neq(a, b *Term) *Term { return Not(Eq(a, b)) }

func cmpOp(op string, a, b *Term) *Term {
	if a.IsConstInt() && b.IsConstInt() {
		c := a.I.Cmp(b.I)
		switch op {
		case "<":
			return BoolC(c < 0)
		case "<=":
			return BoolC(c <= 0)
		case ">":
			return BoolC(c > 0)
		case ">=":
			return BoolC(c >= 0)
		}
	}
	if a.Key() == b.Key() {
		return BoolC(op == "<=" || op == ">=")
	}
	// normalise to < and <=
	switch op {
	case ">":
		return cmpOp("<", b, a)
	case ">=":
		return cmpOp("<=", b, a)
	}
	return &Term{Op: op, Args: []*Term{a, b}, Sort: SBool}
}
func Lt(a, b *Term) *Term { return cmpOp("<", a, b) }
func Le(a, b *Term) *Term { return cmpOp("<=", a, b) }
func Gt(a, b *Term) *Term { return cmpOp(">", a, b) }
func Ge(a, b *Term) *Term { return cmpOp(">=", a, b) }

func Add(a, b *Term) *Term {
	if a.IsConstInt() && b.IsConstInt() {
		return IntB(new(big.Int).Add(a.I, b.I))
	}
	if a.IsConstInt() && a.I.Sign() == 0 {
		return b
	}
	if b.IsConstInt() && b.I.Sign() == 0 {
		return a
	}
	return &Term{Op: "+", Args: []*Term{a, b}, Sort: SInt}
}
func Sub(a, b *Term) *Term {
	if a.IsConstInt() && b.IsConstInt() {
		return IntB(new(big.Int).Sub(a.I, b.I))
	}
	if b.IsConstInt() && b.I.Sign() == 0 {
		return a
	}
	if a.Key() == b.Key() {
		return IntC(0)
	}
	return &Term{Op: "-", Args: []*Term{a, b}, Sort: SInt}
}
func Mul(a, b *Term) *Term {
	if a.IsConstInt() && b.IsConstInt() {
		return IntB(new(big.Int).Mul(a.I, b.I))
	}
	if a.IsConstInt() && a.I.Sign() == 0 || b.IsConstInt() && b.I.Sign() == 0 {
		return IntC(0)
	}
	if a.IsConstInt() && a.I.Cmp(big.NewInt(1)) == 0 {
		return b
	}
	if b.IsConstInt() && b.I.Cmp(big.NewInt(1)) == 0 {
		return a
	}
	return &Term{Op: "*", Args: []*Term{a, b}, Sort: SInt}
}

// Div / Mod: SMT-LIB euclidean; callers handle Go truncation for signed operands.
func Div(a, b *Term) *Term {
	if a.IsConstInt() && b.IsConstInt() && b.I.Sign() != 0 {
		q := new(big.Int)
		m := new(big.Int)
		q.DivMod(a.I, b.I, m)
		return IntB(q)
	}
	return &Term{Op: "div", Args: []*Term{a, b}, Sort: SInt}
}
func Mod(a, b *Term) *Term {
	if a.IsConstInt() && b.IsConstInt() && b.I.Sign() != 0 {
		q := new(big.Int)
		m := new(big.Int)
		q.DivMod(a.I, b.I, m)
		return IntB(m)
	}
	return &Term{Op: "mod", Args: []*Term{a, b}, Sort: SInt}
}

func ArrSort(k, v string) string { return "(Array " + k + " " + v + ")" }

func Select(a, i *Term) *Term {
	// read-over-write folding
	cur := a
	for cur.Op == "store" {
		if cur.Args[1].Key() == i.Key() {
			return cur.Args[2]
		}
		e := Eq(cur.Args[1], i)
		if e.IsFalse() {
			cur = cur.Args[0]
			continue
		}
		break
	}
	vs := arrValSort(cur.Sort)
	if cur.Op == "constarr" {
		return cur.Args[0]
	}
	return &Term{Op: "select", Args: []*Term{cur, i}, Sort: vs}
}
func Store(a, i, v *Term) *Term {
	return &Term{Op: "store", Args: []*Term{a, i, v}, Sort: a.Sort}
}

// ConstArr is a constant array ((as const S) v).
func ConstArr(sort string, v *Term) *Term {
	return &Term{Op: "constarr", Args: []*Term{v}, Sort: sort}
}

func arrValSort(s string) string {
	// "(Array K V)" -> V ; K, V may be nested
	inner := strings.TrimSuffix(strings.TrimPrefix(s, "(Array "), ")")
	depth := 0
	for i := 0; i < len(inner); i++ {
		switch inner[i] {
		case '(':
			depth++
		case ')':
			depth--
		case ' ':
			if depth == 0 {
				return inner[i+1:]
			}
		}
	}
	panic("bad array sort " + s)
}
func arrKeySort(s string) string {
	inner := strings.TrimSuffix(strings.TrimPrefix(s, "(Array "), ")")
	depth := 0
	for i := 0; i < len(inner); i++ {
		switch inner[i] {
		case '(':
			depth++
		case ')':
			depth--
		case ' ':
			if depth == 0 {
				return inner[:i]
			}
		}
	}
	panic("bad array sort " + s)
}

var pow2 = map[int]*big.Int{}

func Pow2(n int) *big.Int {
	if p, ok := pow2[n]; ok {
		return p
	}
	p := new(big.Int).Lsh(big.NewInt(1), uint(n))
	pow2[n] = p
	return p
}

// WrapU wraps an integer term into [0, 2^bits) assuming it is within one period of the range
// (true for the result of +,- on in-range operands).
func WrapU1(t *Term, bits int) *Term {
	if t.IsConstInt() {
		return IntB(new(big.Int).Mod(t.I, Pow2(bits)))
	}
	m := IntB(Pow2(bits))
	return Ite(Ge(t, m), Sub(t, m), Ite(Lt(t, IntC(0)), Add(t, m), t))
}

// WrapS1 wraps into [-2^(bits-1), 2^(bits-1)) for results within one period.
func WrapS1(t *Term, bits int) *Term {
	half := Pow2(bits - 1)
	if t.IsConstInt() {
		v := new(big.Int).Add(t.I, half)
		v.Mod(v, Pow2(bits))
		v.Sub(v, half)
		return IntB(v)
	}
	m := IntB(Pow2(bits))
	return Ite(Ge(t, IntB(half)), Sub(t, m), Ite(Lt(t, IntB(new(big.Int).Neg(half))), Add(t, m), t))
}

// WrapUFull wraps an arbitrary integer (e.g. a product) into [0,2^bits).
func WrapUFull(t *Term, bits int) *Term {
	if t.IsConstInt() {
		return IntB(new(big.Int).Mod(t.I, Pow2(bits)))
	}
	return Mod(t, IntB(Pow2(bits)))
}
func WrapSFull(t *Term, bits int) *Term {
	half := IntB(Pow2(bits - 1))
	return Sub(WrapUFull(Add(t, half), bits), half)
}

// ---- traversal helpers ----

func (t *Term) Walk(f func(*Term)) {
	seen := map[*Term]bool{}
	var rec func(*Term)
	rec = func(x *Term) {
		if seen[x] {
			return
		}
		seen[x] = true
		f(x)
		for _, a := range x.Args {
			rec(a)
		}
	}
	rec(t)
}

// Subst replaces variables by name.
func (t *Term) Subst(m map[string]*Term) *Term {
	if len(m) == 0 {
		return t
	}
	cache := map[*Term]*Term{}
	var rec func(*Term) *Term
	rec = func(x *Term) *Term {
		if r, ok := cache[x]; ok {
			return r
		}
		var r *Term
		switch x.Op {
		case "var":
			if v, ok := m[x.Name]; ok {
				r = v
			} else {
				r = x
			}
		case "int", "bool":
			r = x
		default:
			changed := false
			args := make([]*Term, len(x.Args))
			for i, a := range x.Args {
				args[i] = rec(a)
				if args[i] != a {
					changed = true
				}
			}
			if !changed {
				r = x
			} else {
				r = rebuild(x, args)
			}
		}
		cache[x] = r
		return r
	}
	return rec(t)
}

func rebuild(x *Term, args []*Term) *Term {
	switch x.Op {
	case "not":
		return Not(args[0])
	case "and":
		return And(args...)
	case "or":
		return Or(args...)
	case "=>":
		return Implies(args[0], args[1])
	case "ite":
		return Ite(args[0], args[1], args[2])
	case "=":
		return Eq(args[0], args[1])
	case "<":
		return Lt(args[0], args[1])
	case "<=":
		return Le(args[0], args[1])
	case "+":
		return Add(args[0], args[1])
	case "-":
		return Sub(args[0], args[1])
	case "*":
		return Mul(args[0], args[1])
	case "div":
		return Div(args[0], args[1])
	case "mod":
		return Mod(args[0], args[1])
	case "select":
		return Select(args[0], args[1])
	case "store":
		return Store(args[0], args[1], args[2])
	}
	return &Term{Op: x.Op, Args: args, Sort: x.Sort, Name: x.Name, I: x.I, B: x.B}
}

// ---- SMT-LIB printing ----

type smtDecls struct {
	sorts map[string]bool
	vars  map[string]string   // name -> sort
	funs  map[string][]string // name -> arg sorts..., result sort
}

func collectDecls(ts []*Term) *smtDecls {
	d := &smtDecls{sorts: map[string]bool{}, vars: map[string]string{}, funs: map[string][]string{}}
	seen := map[*Term]bool{}
	var rec func(*Term)
	noteSort := func(s string) {
		for _, w := range strings.FieldsFunc(s, func(r rune) bool { return r == '(' || r == ')' || r == ' ' }) {
			if w != "Array" && w != "Int" && w != "Bool" && w != "Seq" {
				d.sorts[w] = true
			}
		}
	}
	rec = func(x *Term) {
		if seen[x] {
			return
		}
		seen[x] = true
		noteSort(x.Sort)
		switch x.Op {
		case "var":
			d.vars[x.Name] = x.Sort
		case "app":
			sig := make([]string, 0, len(x.Args)+1)
			for _, a := range x.Args {
				sig = append(sig, a.Sort)
			}
			sig = append(sig, x.Sort)
			d.funs[x.Name] = sig
		}
		for _, a := range x.Args {
			rec(a)
		}
	}
	for _, t := range ts {
		rec(t)
	}
	return d
}

func (d *smtDecls) print(sb *strings.Builder, seqMode bool) {
	var names []string
	for s := range d.sorts {
		names = append(names, s)
	}
	sort.Strings(names)
	for _, s := range names {
		if s == SB && seqMode {
			sb.WriteString("(define-sort B () (Seq Int))\n")
			continue
		}
		fmt.Fprintf(sb, "(declare-sort %s 0)\n", s)
	}
	names = names[:0]
	for v := range d.vars {
		names = append(names, v)
	}
	sort.Strings(names)
	for _, v := range names {
		fmt.Fprintf(sb, "(declare-fun %s () %s)\n", v, d.vars[v])
	}
	names = names[:0]
	for f := range d.funs {
		names = append(names, f)
	}
	sort.Strings(names)
	for _, f := range names {
		if seqMode && seqBuiltin[f] {
			continue
		}
		sig := d.funs[f]
		fmt.Fprintf(sb, "(declare-fun %s (%s) %s)\n", f, strings.Join(sig[:len(sig)-1], " "), sig[len(sig)-1])
	}
}

// functions that are defined (not declared) in Seq mode
var seqBuiltin = map[string]bool{}

func smtRender(t *Term) string {
	// constarr needs special syntax
	if !strings.Contains(t.Key(), "constarr") {
		return t.Key()
	}
	var rec func(*Term) string
	rec = func(x *Term) string {
		if x.Op == "constarr" {
			return "((as const " + x.Sort + ") " + rec(x.Args[0]) + ")"
		}
		if len(x.Args) == 0 {
			return x.Key()
		}
		var sb strings.Builder
		if x.Op == "app" {
			sb.WriteString("(" + x.Name)
		} else {
			sb.WriteString("(" + x.Op)
		}
		for _, a := range x.Args {
			sb.WriteString(" " + rec(a))
		}
		sb.WriteString(")")
		return sb.String()
	}
	return rec(t)
}
