package main

import (
	"fmt"
	"math/big"
	"sort"
	"strconv"
	"strings"
)

// Term is an SMT term. Terms are immutable and hash-consed: structurally equal terms are the same pointer,
// Key() is a short unique identity (operator + ids of the arguments), never the expanded text.
type Term struct {
	Op   string // "int","bool","var","app", or SMT operator
	Args []*Term
	Sort string
	I    *big.Int
	B    bool
	Name string
	key  string
	id   int
}

const (
	SInt  = "Int"
	SBool = "Bool"
	SB    = "B" // byte strings (Go string, []byte content, [N]byte)
)

var (
	internTab = map[string]*Term{}
	termN     int
	TTrue     = mk(&Term{Op: "bool", B: true, Sort: SBool})
	TFalse    = mk(&Term{Op: "bool", B: false, Sort: SBool})
)

func mk(t *Term) *Term {
	var sb strings.Builder
	sb.WriteString(t.Op)
	sb.WriteByte('|')
	sb.WriteString(t.Name)
	sb.WriteByte('|')
	sb.WriteString(t.Sort)
	sb.WriteByte('|')
	switch t.Op {
	case "int":
		sb.WriteString(t.I.String())
	case "bool":
		if t.B {
			sb.WriteByte('1')
		}
	}
	for _, a := range t.Args {
		sb.WriteByte(',')
		sb.WriteString(strconv.Itoa(a.id))
	}
	k := sb.String()
	if x, ok := internTab[k]; ok {
		return x
	}
	termN++
	t.id = termN
	t.key = k
	internTab[k] = t
	return t
}

func (t *Term) Key() string { return t.key }
func (t *Term) ID() int     { return t.id }

// String renders the term as SMT-LIB text, truncated for display.
func (t *Term) String() string {
	var sb strings.Builder
	t.renderTo(&sb, 0, 4000)
	return sb.String()
}

func (t *Term) renderTo(sb *strings.Builder, depth, limit int) {
	if sb.Len() > limit {
		sb.WriteString("…")
		return
	}
	switch t.Op {
	case "int":
		if t.I.Sign() < 0 {
			sb.WriteString("(- " + new(big.Int).Neg(t.I).String() + ")")
		} else {
			sb.WriteString(t.I.String())
		}
		return
	case "bool":
		if t.B {
			sb.WriteString("true")
		} else {
			sb.WriteString("false")
		}
		return
	case "var":
		sb.WriteString(t.Name)
		return
	case "constarr":
		sb.WriteString("((as const " + t.Sort + ") ")
		t.Args[0].renderTo(sb, depth+1, limit)
		sb.WriteString(")")
		return
	}
	head := t.Op
	if t.Op == "app" {
		head = t.Name
		if len(t.Args) == 0 {
			sb.WriteString(head)
			return
		}
	}
	sb.WriteString("(" + head)
	for _, a := range t.Args {
		sb.WriteByte(' ')
		a.renderTo(sb, depth+1, limit)
	}
	sb.WriteString(")")
}

func IntC(i int64) *Term    { return mk(&Term{Op: "int", I: big.NewInt(i), Sort: SInt}) }
func IntB(i *big.Int) *Term { return mk(&Term{Op: "int", I: new(big.Int).Set(i), Sort: SInt}) }
func BoolC(b bool) *Term {
	if b {
		return TTrue
	}
	return TFalse
}
func Var(name, sort string) *Term { return mk(&Term{Op: "var", Name: name, Sort: sort}) }
func App(name, sort string, args ...*Term) *Term {
	return mk(&Term{Op: "app", Name: name, Sort: sort, Args: args})
}

func (t *Term) IsConstInt() bool  { return t.Op == "int" }
func (t *Term) IsConstBool() bool { return t.Op == "bool" }
func (t *Term) IsTrue() bool      { return t.Op == "bool" && t.B }
func (t *Term) IsFalse() bool     { return t.Op == "bool" && !t.B }

func Not(a *Term) *Term {
	if a.IsConstBool() {
		return BoolC(!a.B)
	}
	if a.Op == "not" {
		return a.Args[0]
	}
	return mk(&Term{Op: "not", Args: []*Term{a}, Sort: SBool})
}

func And(as ...*Term) *Term {
	var out []*Term
	seen := map[string]bool{}
	for _, a := range as {
		if a.IsTrue() {
			continue
		}
		if a.IsFalse() {
			return TFalse
		}
		if a.Op == "and" {
			for _, b := range a.Args {
				if !seen[b.Key()] {
					seen[b.Key()] = true
					out = append(out, b)
				}
			}
			continue
		}
		if !seen[a.Key()] {
			seen[a.Key()] = true
			out = append(out, a)
		}
	}
	for _, a := range out {
		if seen[Not(a).Key()] {
			return TFalse
		}
	}
	if len(out) == 0 {
		return TTrue
	}
	if len(out) == 1 {
		return out[0]
	}
	return mk(&Term{Op: "and", Args: out, Sort: SBool})
}

func Or(as ...*Term) *Term {
	var out []*Term
	seen := map[string]bool{}
	for _, a := range as {
		if a.IsFalse() {
			continue
		}
		if a.IsTrue() {
			return TTrue
		}
		if a.Op == "or" {
			for _, b := range a.Args {
				if !seen[b.Key()] {
					seen[b.Key()] = true
					out = append(out, b)
				}
			}
			continue
		}
		if !seen[a.Key()] {
			seen[a.Key()] = true
			out = append(out, a)
		}
	}
	for _, a := range out {
		if seen[Not(a).Key()] {
			return TTrue
		}
	}
	if len(out) == 0 {
		return TFalse
	}
	if len(out) == 1 {
		return out[0]
	}
	return mk(&Term{Op: "or", Args: out, Sort: SBool})
}

func Implies(a, b *Term) *Term {
	if a.IsTrue() {
		return b
	}
	if a.IsFalse() || b.IsTrue() {
		return TTrue
	}
	if b.IsFalse() {
		return Not(a)
	}
	return mk(&Term{Op: "=>", Args: []*Term{a, b}, Sort: SBool})
}

func Iff(a, b *Term) *Term { return Eq(a, b) }

func Ite(c, a, b *Term) *Term {
	if c.IsTrue() {
		return a
	}
	if c.IsFalse() {
		return b
	}
	if a.Key() == b.Key() {
		return a
	}
	if a.Sort == SBool {
		if a.IsTrue() && b.IsFalse() {
			return c
		}
		if a.IsFalse() && b.IsTrue() {
			return Not(c)
		}
	}
	return mk(&Term{Op: "ite", Args: []*Term{c, a, b}, Sort: a.Sort})
}

func Eq(a, b *Term) *Term {
	if a.Sort != b.Sort {
		panic(fmt.Sprintf("Eq sort mismatch: %s:%s vs %s:%s", a, a.Sort, b, b.Sort))
	}
	if a.Key() == b.Key() {
		return TTrue
	}
	if a.IsConstInt() && b.IsConstInt() {
		return BoolC(a.I.Cmp(b.I) == 0)
	}
	if a.IsConstBool() && b.IsConstBool() {
		return BoolC(a.B == b.B)
	}
	if a.Sort == SBool {
		if b.IsTrue() {
			return a
		}
		if b.IsFalse() {
			return Not(a)
		}
		if a.IsTrue() {
			return b
		}
		if a.IsFalse() {
			return Not(b)
		}
	}
	// comparisons with a constant are pushed into conditionals when that decides a branch
	if b.IsConstInt() && a.Op == "ite" {
		l, r := Eq(a.Args[1], b), Eq(a.Args[2], b)
		if l.IsConstBool() || r.IsConstBool() {
			return Ite(a.Args[0], l, r)
		}
	}
	if a.IsConstInt() && b.Op == "ite" {
		l, r := Eq(b.Args[1], a), Eq(b.Args[2], a)
		if l.IsConstBool() || r.IsConstBool() {
			return Ite(b.Args[0], l, r)
		}
	}
	// distinct named byte-string constants
	if a.Op == "app" && b.Op == "app" && len(a.Args) == 0 && len(b.Args) == 0 &&
		strings.HasPrefix(a.Name, "strc_") && strings.HasPrefix(b.Name, "strc_") {
		return BoolC(a.Name == b.Name)
	}
	if a.Key() > b.Key() {
		a, b = b, a
	}
	return mk(&Term{Op: "=", Args: []*Term{a, b}, Sort: SBool})
}

func Neq(a, b *Term) *Term { return Not(Eq(a, b)) }

func cmpOp(op string, a, b *Term) *Term {
	if a.IsConstInt() && b.IsConstInt() {
		c := a.I.Cmp(b.I)
		switch op {
		case "<":
			return BoolC(c < 0)
		case "<=":
			return BoolC(c <= 0)
		case ">":
			return BoolC(c > 0)
		case ">=":
			return BoolC(c >= 0)
		}
	}
	if a.Key() == b.Key() {
		return BoolC(op == "<=" || op == ">=")
	}
	// normalise to < and <=
	switch op {
	case ">":
		return cmpOp("<", b, a)
	case ">=":
		return cmpOp("<=", b, a)
	}
	return mk(&Term{Op: op, Args: []*Term{a, b}, Sort: SBool})
}
func Lt(a, b *Term) *Term { return cmpOp("<", a, b) }
func Le(a, b *Term) *Term { return cmpOp("<=", a, b) }
func Gt(a, b *Term) *Term { return cmpOp(">", a, b) }
func Ge(a, b *Term) *Term { return cmpOp(">=", a, b) }

// splitConst views t as base + c.
func splitConst(t *Term) (*Term, *big.Int) {
	if t.IsConstInt() {
		return nil, t.I
	}
	if t.Op == "+" && t.Args[1].IsConstInt() {
		return t.Args[0], t.Args[1].I
	}
	if t.Op == "-" && t.Args[1].IsConstInt() {
		return t.Args[0], new(big.Int).Neg(t.Args[1].I)
	}
	return t, big.NewInt(0)
}

func addConst(base *Term, c *big.Int) *Term {
	if base == nil {
		return IntB(c)
	}
	if c.Sign() == 0 {
		return base
	}
	if c.Sign() < 0 {
		return mk(&Term{Op: "-", Args: []*Term{base, IntB(new(big.Int).Neg(c))}, Sort: SInt})
	}
	return mk(&Term{Op: "+", Args: []*Term{base, IntB(c)}, Sort: SInt})
}

func Add(a, b *Term) *Term {
	if a.IsConstInt() && b.IsConstInt() {
		return IntB(new(big.Int).Add(a.I, b.I))
	}
	if b.IsConstInt() {
		base, c := splitConst(a)
		return addConst(base, new(big.Int).Add(c, b.I))
	}
	if a.IsConstInt() {
		base, c := splitConst(b)
		return addConst(base, new(big.Int).Add(c, a.I))
	}
	if a.IsConstInt() && a.I.Sign() == 0 {
		return b
	}
	if b.IsConstInt() && b.I.Sign() == 0 {
		return a
	}
	return mk(&Term{Op: "+", Args: []*Term{a, b}, Sort: SInt})
}
func Sub(a, b *Term) *Term {
	if a.IsConstInt() && b.IsConstInt() {
		return IntB(new(big.Int).Sub(a.I, b.I))
	}
	if b.IsConstInt() {
		base, c := splitConst(a)
		return addConst(base, new(big.Int).Sub(c, b.I))
	}
	{
		ba, ca := splitConst(a)
		bb, cb := splitConst(b)
		if ba != nil && bb != nil && ba == bb {
			return IntB(new(big.Int).Sub(ca, cb))
		}
	}
	if b.IsConstInt() && b.I.Sign() == 0 {
		return a
	}
	if a.Key() == b.Key() {
		return IntC(0)
	}
	return mk(&Term{Op: "-", Args: []*Term{a, b}, Sort: SInt})
}
func Mul(a, b *Term) *Term {
	if a.IsConstInt() && b.IsConstInt() {
		return IntB(new(big.Int).Mul(a.I, b.I))
	}
	if a.IsConstInt() && a.I.Sign() == 0 || b.IsConstInt() && b.I.Sign() == 0 {
		return IntC(0)
	}
	if a.IsConstInt() && a.I.Cmp(big.NewInt(1)) == 0 {
		return b
	}
	if b.IsConstInt() && b.I.Cmp(big.NewInt(1)) == 0 {
		return a
	}
	return mk(&Term{Op: "*", Args: []*Term{a, b}, Sort: SInt})
}

// Div / Mod: SMT-LIB euclidean; callers handle Go truncation for signed operands.
func Div(a, b *Term) *Term {
	if a.IsConstInt() && b.IsConstInt() && b.I.Sign() != 0 {
		q := new(big.Int)
		m := new(big.Int)
		q.DivMod(a.I, b.I, m)
		return IntB(q)
	}
	return mk(&Term{Op: "div", Args: []*Term{a, b}, Sort: SInt})
}
func Mod(a, b *Term) *Term {
	if a.IsConstInt() && b.IsConstInt() && b.I.Sign() != 0 {
		q := new(big.Int)
		m := new(big.Int)
		q.DivMod(a.I, b.I, m)
		return IntB(m)
	}
	return mk(&Term{Op: "mod", Args: []*Term{a, b}, Sort: SInt})
}

func ArrSort(k, v string) string { return "(Array " + k + " " + v + ")" }

func Select(a, i *Term) *Term {
	// read-over-write folding
	cur := a
	for cur.Op == "store" {
		if cur.Args[1].Key() == i.Key() {
			return cur.Args[2]
		}
		e := Eq(cur.Args[1], i)
		if e.IsFalse() {
			cur = cur.Args[0]
			continue
		}
		break
	}
	vs := arrValSort(cur.Sort)
	if cur.Op == "constarr" {
		return cur.Args[0]
	}
	return mk(&Term{Op: "select", Args: []*Term{cur, i}, Sort: vs})
}
func Store(a, i, v *Term) *Term {
	return mk(&Term{Op: "store", Args: []*Term{a, i, v}, Sort: a.Sort})
}

// ConstArr is a constant array ((as const S) v).
func ConstArr(sort string, v *Term) *Term {
	return mk(&Term{Op: "constarr", Args: []*Term{v}, Sort: sort})
}

func arrValSort(s string) string {
	// "(Array K V)" -> V ; K, V may be nested
	inner := strings.TrimSuffix(strings.TrimPrefix(s, "(Array "), ")")
	depth := 0
	for i := 0; i < len(inner); i++ {
		switch inner[i] {
		case '(':
			depth++
		case ')':
			depth--
		case ' ':
			if depth == 0 {
				return inner[i+1:]
			}
		}
	}
	panic("bad array sort " + s)
}
func arrKeySort(s string) string {
	inner := strings.TrimSuffix(strings.TrimPrefix(s, "(Array "), ")")
	depth := 0
	for i := 0; i < len(inner); i++ {
		switch inner[i] {
		case '(':
			depth++
		case ')':
			depth--
		case ' ':
			if depth == 0 {
				return inner[:i]
			}
		}
	}
	panic("bad array sort " + s)
}

var pow2 = map[int]*big.Int{}

func Pow2(n int) *big.Int {
	if p, ok := pow2[n]; ok {
		return p
	}
	p := new(big.Int).Lsh(big.NewInt(1), uint(n))
	pow2[n] = p
	return p
}

// WrapU wraps an integer term into [0, 2^bits) assuming it is within one period of the range
// (true for the result of +,- on in-range operands).
func WrapU1(t *Term, bits int) *Term {
	if t.IsConstInt() {
		return IntB(new(big.Int).Mod(t.I, Pow2(bits)))
	}
	m := IntB(Pow2(bits))
	return Ite(Ge(t, m), Sub(t, m), Ite(Lt(t, IntC(0)), Add(t, m), t))
}

// WrapS1 wraps into [-2^(bits-1), 2^(bits-1)) for results within one period.
func WrapS1(t *Term, bits int) *Term {
	half := Pow2(bits - 1)
	if t.IsConstInt() {
		v := new(big.Int).Add(t.I, half)
		v.Mod(v, Pow2(bits))
		v.Sub(v, half)
		return IntB(v)
	}
	m := IntB(Pow2(bits))
	return Ite(Ge(t, IntB(half)), Sub(t, m), Ite(Lt(t, IntB(new(big.Int).Neg(half))), Add(t, m), t))
}

// WrapUFull wraps an arbitrary integer (e.g. a product) into [0,2^bits).
func WrapUFull(t *Term, bits int) *Term {
	if t.IsConstInt() {
		return IntB(new(big.Int).Mod(t.I, Pow2(bits)))
	}
	return Mod(t, IntB(Pow2(bits)))
}
func WrapSFull(t *Term, bits int) *Term {
	half := IntB(Pow2(bits - 1))
	return Sub(WrapUFull(Add(t, half), bits), half)
}

// ---- traversal helpers ----

func (t *Term) Walk(f func(*Term)) {
	seen := map[*Term]bool{}
	var rec func(*Term)
	rec = func(x *Term) {
		if seen[x] {
			return
		}
		seen[x] = true
		f(x)
		for _, a := range x.Args {
			rec(a)
		}
	}
	rec(t)
}

// Subst replaces variables by name.
func (t *Term) Subst(m map[string]*Term) *Term {
	if len(m) == 0 {
		return t
	}
	cache := map[*Term]*Term{}
	var rec func(*Term) *Term
	rec = func(x *Term) *Term {
		if r, ok := cache[x]; ok {
			return r
		}
		var r *Term
		switch x.Op {
		case "var":
			if v, ok := m[x.Name]; ok {
				r = v
			} else {
				r = x
			}
		case "int", "bool":
			r = x
		default:
			changed := false
			args := make([]*Term, len(x.Args))
			for i, a := range x.Args {
				args[i] = rec(a)
				if args[i] != a {
					changed = true
				}
			}
			if !changed {
				r = x
			} else {
				r = rebuild(x, args)
			}
		}
		cache[x] = r
		return r
	}
	return rec(t)
}

func rebuild(x *Term, args []*Term) *Term {
	switch x.Op {
	case "not":
		return Not(args[0])
	case "and":
		return And(args...)
	case "or":
		return Or(args...)
	case "=>":
		return Implies(args[0], args[1])
	case "ite":
		return Ite(args[0], args[1], args[2])
	case "=":
		return Eq(args[0], args[1])
	case "<":
		return Lt(args[0], args[1])
	case "<=":
		return Le(args[0], args[1])
	case "+":
		return Add(args[0], args[1])
	case "-":
		return Sub(args[0], args[1])
	case "*":
		return Mul(args[0], args[1])
	case "div":
		return Div(args[0], args[1])
	case "mod":
		return Mod(args[0], args[1])
	case "select":
		return Select(args[0], args[1])
	case "store":
		return Store(args[0], args[1], args[2])
	}
	return mk(&Term{Op: x.Op, Args: args, Sort: x.Sort, Name: x.Name, I: x.I, B: x.B})
}

// ---- SMT-LIB printing ----

type smtDecls struct {
	sorts map[string]bool
	vars  map[string]string   // name -> sort
	funs  map[string][]string // name -> arg sorts..., result sort
}

func collectDecls(ts []*Term) *smtDecls {
	d := &smtDecls{sorts: map[string]bool{}, vars: map[string]string{}, funs: map[string][]string{}}
	seen := map[*Term]bool{}
	var rec func(*Term)
	noteSort := func(s string) {
		for _, w := range strings.FieldsFunc(s, func(r rune) bool { return r == '(' || r == ')' || r == ' ' }) {
			if w != "Array" && w != "Int" && w != "Bool" && w != "Seq" {
				d.sorts[w] = true
			}
		}
	}
	rec = func(x *Term) {
		if seen[x] {
			return
		}
		seen[x] = true
		noteSort(x.Sort)
		switch x.Op {
		case "var":
			d.vars[x.Name] = x.Sort
		case "app":
			sig := make([]string, 0, len(x.Args)+1)
			for _, a := range x.Args {
				sig = append(sig, a.Sort)
			}
			sig = append(sig, x.Sort)
			d.funs[x.Name] = sig
		}
		for _, a := range x.Args {
			rec(a)
		}
	}
	for _, t := range ts {
		rec(t)
	}
	return d
}

func (d *smtDecls) print(sb *strings.Builder, seqMode bool) {
	var names []string
	for s := range d.sorts {
		names = append(names, s)
	}
	sort.Strings(names)
	for _, s := range names {
		if s == SB && seqMode {
			sb.WriteString("(define-sort B () (Seq Int))\n")
			continue
		}
		fmt.Fprintf(sb, "(declare-sort %s 0)\n", s)
	}
	names = names[:0]
	for v := range d.vars {
		names = append(names, v)
	}
	sort.Strings(names)
	for _, v := range names {
		fmt.Fprintf(sb, "(declare-fun %s () %s)\n", v, d.vars[v])
	}
	names = names[:0]
	for f := range d.funs {
		names = append(names, f)
	}
	sort.Strings(names)
	for _, f := range names {
		if seqMode && seqBuiltin[f] {
			continue
		}
		sig := d.funs[f]
		fmt.Fprintf(sb, "(declare-fun %s (%s) %s)\n", f, strings.Join(sig[:len(sig)-1], " "), sig[len(sig)-1])
	}
}

// functions that are defined (not declared) in Seq mode
var seqBuiltin = map[string]bool{}

// smtDefs prints the given assertions with every shared non-leaf subterm defined once
// (define-fun t!N () Sort ...), so the output is linear in the size of the term DAG.
func smtDefs(sb *strings.Builder, asserts []*Term) {
	uses := map[*Term]int{}
	var count func(*Term)
	count = func(x *Term) {
		uses[x]++
		if uses[x] > 1 {
			return
		}
		for _, a := range x.Args {
			count(a)
		}
	}
	for _, a := range asserts {
		count(a)
	}
	names := map[*Term]string{}
	var emit func(*Term) string
	emit = func(x *Term) string {
		if n, ok := names[x]; ok {
			return n
		}
		var txt string
		switch x.Op {
		case "int", "bool", "var":
			var b strings.Builder
			x.renderTo(&b, 0, 1<<30)
			return b.String()
		case "constarr":
			txt = "((as const " + x.Sort + ") " + emit(x.Args[0]) + ")"
		default:
			head := x.Op
			if x.Op == "app" {
				head = x.Name
			}
			if len(x.Args) == 0 {
				return head
			}
			var b strings.Builder
			b.WriteString("(" + head)
			for _, a := range x.Args {
				b.WriteByte(' ')
				b.WriteString(emit(a))
			}
			b.WriteString(")")
			txt = b.String()
		}
		if uses[x] > 1 && len(txt) > 24 {
			n := "t!" + strconv.Itoa(x.id)
			fmt.Fprintf(sb, "(define-fun %s () %s %s)\n", n, x.Sort, txt)
			names[x] = n
			return n
		}
		names[x] = txt
		return txt
	}
	for _, a := range asserts {
		sb.WriteString("(assert " + emit(a) + ")\n")
	}
}
