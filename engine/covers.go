package main

import (
	"fmt"
	"go/token"
	"go/types"
	"strings"

	"golang.org/x/tools/go/ssa"
)

// `loop#k covers <expr>`: the k-th loop of the function is a range over exactly the slice <expr> (evaluated over the
// entry values of the parameters), and it is left only because the range is exhausted. Together with the clauses that
// hold for one arbitrary iteration (invariants, precede/respond/never clauses over the `range.next` event) this gives a
// statement about EVERY element of the slice: a Go range over a slice visits the indices 0..len-1 in order, once each.
// Two obligations per clause:
//   fn/covers#k/<label>/whole-slice : at loop entry the ranged operand has the base, offset and length of <expr>
//   fn/covers#k/<label>/not-left-early : on every path that leaves the loop from its body (break, return) instead of
//                                        through the header's exhaustion exit, the function returns a non-nil error

// rangeLoop recognises the SSA shape of `for i, x := range s` over a slice or array pointer:
//
//	header: rangeindex = phi [-1, incr]; incr = rangeindex + 1; cond = incr < len(s); if cond goto body else done
//
// and returns the ranged operand, incr and the in-loop successor of the header.
func rangeLoop(lp *Loop) (ranged ssa.Value, incr ssa.Value, body *ssa.BasicBlock) {
	h := lp.Header
	if len(h.Instrs) == 0 {
		return nil, nil, nil
	}
	iff, ok := h.Instrs[len(h.Instrs)-1].(*ssa.If)
	if !ok {
		return nil, nil, nil
	}
	cmp, ok := iff.Cond.(*ssa.BinOp)
	if !ok || cmp.Op != token.LSS {
		return nil, nil, nil
	}
	if phi, ok := cmp.X.(*ssa.Phi); ok && phi.Block() == h {
		return countedLoop(lp, cmp, phi)
	}
	add, ok := cmp.X.(*ssa.BinOp)
	if !ok || add.Op != token.ADD {
		return nil, nil, nil
	}
	phi, ok := add.X.(*ssa.Phi)
	if !ok || phi.Comment != "rangeindex" || phi.Block() != h {
		return nil, nil, nil
	}
	call, ok := cmp.Y.(*ssa.Call)
	if !ok {
		return nil, nil, nil
	}
	if b, ok := call.Call.Value.(*ssa.Builtin); !ok || b.Name() != "len" || len(call.Call.Args) != 1 {
		return nil, nil, nil
	}
	if len(h.Succs) != 2 || !lp.Body[h.Succs[0]] || lp.Body[h.Succs[1]] {
		return nil, nil, nil
	}
	return call.Call.Args[0], add, h.Succs[0]
}

// countedLoop recognises the hand-written form `for i := 0; i < len(s); i++ { ... s[i] ... }`:
//
//	header: i = phi [0, i+1]; cond = i < len(s); if cond goto body else done
//
// with s defined outside the loop and i changed by nothing but the increment (it is an SSA phi with exactly these
// two sources). The index of the step is i itself.
func countedLoop(lp *Loop, cmp *ssa.BinOp, phi *ssa.Phi) (ssa.Value, ssa.Value, *ssa.BasicBlock) {
	h := lp.Header
	call, ok := cmp.Y.(*ssa.Call)
	if !ok {
		return nil, nil, nil
	}
	if b, ok := call.Call.Value.(*ssa.Builtin); !ok || b.Name() != "len" || len(call.Call.Args) != 1 {
		return nil, nil, nil
	}
	x := call.Call.Args[0]
	if ins, ok := x.(ssa.Instruction); ok && lp.Body[ins.Block()] {
		return nil, nil, nil // the slice is recomputed inside the loop
	}
	if len(h.Succs) != 2 || !lp.Body[h.Succs[0]] || lp.Body[h.Succs[1]] || len(phi.Edges) != len(h.Preds) {
		return nil, nil, nil
	}
	for i, e := range phi.Edges {
		if lp.Body[h.Preds[i]] {
			inc, ok := e.(*ssa.BinOp)
			if !ok || inc.Op != token.ADD || inc.X != phi {
				return nil, nil, nil
			}
			if c, ok := inc.Y.(*ssa.Const); !ok || c.Value == nil || c.Int64() != 1 {
				return nil, nil, nil
			}
		} else {
			if c, ok := e.(*ssa.Const); !ok || c.Value == nil || c.Int64() != 0 {
				return nil, nil, nil
			}
		}
	}
	return x, phi, h.Succs[0]
}

// mapRangeLoop recognises `for k, v := range m` over a map: the header holds the Next of a Range over m and is the
// only block that leaves the loop when the iteration is exhausted.
func mapRangeLoop(lp *Loop) ssa.Value {
	h := lp.Header
	for _, ins := range h.Instrs {
		if nx, ok := ins.(*ssa.Next); ok && !nx.IsString {
			if rg, ok := nx.Iter.(*ssa.Range); ok {
				if _, isMap := rg.X.Type().Underlying().(*types.Map); isMap {
					return rg.X
				}
			}
		}
	}
	return nil
}

// loopOfBlock returns the innermost loop whose header is b (nil when b is no loop header).
func (ex *Exec) loopOrdinalOfHeader(fn *ssa.Function, b *ssa.BasicBlock) (int, bool) {
	if lp := ex.loopInfo(fn).ByHeader[b]; lp != nil {
		return baselineLoopOrdinal(fn, lp.Ordinal), true
	}
	return 0, false
}

func (ex *Exec) coverClauses(fr *Frame) []*Clause {
	if ex.Specs == nil {
		return nil
	}
	ct := ex.Specs.Contracts[fr.Fn.String()]
	if ct == nil {
		return nil
	}
	return ct.Covers
}

// onEdge is called for every control-flow edge taken in the top frame (before the loop machinery of jump).
func (ex *Exec) onEdge(st *State, fr *Frame, from, to *ssa.BasicBlock) {
	li := ex.loopInfo(fr.Fn)
	if len(li.Loops) == 0 {
		return
	}
	// "range.next": one step of a range over a slice (a0 = the slice, a1 = the index; ar0 = the element)
	if lp := li.ByHeader[from]; lp != nil && from != nil && lp.Body[to] && to != from {
		if ranged, incr, body := rangeLoop(lp); ranged != nil && body == to {
			if sv, ok := ex.eval(fr, ranged).(*SliceV); ok && sv.Obj != nil {
				idx := ex.asTerm(ex.eval(fr, incr))
				p := &PtrV{Nil: TFalse, Obj: sv.Obj, Path: append(append([]PathEl(nil), sv.Path...), PathEl{Idx: Add(sv.Off, idx)})}
				el := ex.load(st, p, sv.Elem)
				// range.next#k names loop#k of the function under contract; steps of loops in inlined callees carry
				// the callee's name as well (they match the pattern range.next, not range.next#k)
				nm := fmt.Sprintf("range.next#%d", baselineLoopOrdinal(fr.Fn, lp.Ordinal))
				if len(st.Frames) > 0 && fr != st.Frames[0] {
					nm += "[in " + shortName(ex.fnName(fr.Fn)) + "]"
				}
				ex.event(st, &Event{Callee: nm, Args: []Value{sv, idx}, Results: []Value{el}, Instr: from.Instrs[len(from.Instrs)-1], Fn: fr.Fn, Kind: "rangenext"})
			}
		}
	}
	cov := ex.coverClauses(fr)
	if len(cov) == 0 {
		return
	}
	for _, c := range cov {
		var lp *Loop
		for _, l := range li.Loops {
			if baselineLoopOrdinal(fr.Fn, l.Ordinal) == c.Loop {
				lp = l
			}
		}
		if lp == nil {
			continue // reported as a missing target (VerifyFunction)
		}
		label := c.Label
		if label == "" {
			label = "covers"
		}
		base := fmt.Sprintf("%s/covers#%d/%s", ex.fnName(fr.Fn), c.Loop, label)
		if to == lp.Header && (from == nil || !lp.Body[from]) {
			ranged, _, _ := rangeLoop(lp)
			if ranged == nil {
				ranged = mapRangeLoop(lp)
			}
			if ranged == nil {
				ex.specErrorOnce(fmt.Sprintf("%s: covers: loop#%d of %s is not a range over a slice or a map", c.Line, c.Loop, ex.fnName(fr.Fn)))
				continue
			}
			var errs []string
			env := &Env{ex: ex, st: st, names: ex.loopNames(st, fr, lp), errs: &errs}
			want := env.evalSE(&c.Expr)
			cur := ex.eval(fr, ranged)
			goal := sameSliceTerm(cur, want)
			if goal == nil {
				ex.specErrorOnce(fmt.Sprintf("%s: covers %q: not a slice or map (%s)", c.Line, c.Src, strings.Join(errs, "; ")))
				continue
			}
			ex.record(st, &Obligation{Name: base + "/whole-slice", Kind: "covers", Goal: goal, Props: c.Props, Fn: fr.Fn.String()})
			if fr.CoverReached == nil {
				fr.CoverReached = map[*Clause]bool{}
			} else {
				n := make(map[*Clause]bool, len(fr.CoverReached)+1)
				for k, v := range fr.CoverReached {
					n[k] = v
				}
				fr.CoverReached = n
			}
			fr.CoverReached[c] = true
		}
		if from != nil && from != lp.Header && lp.Body[from] && !lp.Body[to] {
			// decided when the function returns: leaving early is allowed when the function fails (returns an error)
			fr.LeftEarly = append(append([]*Clause(nil), fr.LeftEarly...), c)
		}
	}
}

func sameSliceTerm(a, b Value) *Term {
	if m1, ok := a.(*MapV); ok {
		if m2, ok := b.(*MapV); ok {
			return BoolC(m1.Obj == m2.Obj && m1.Obj != nil)
		}
		return nil
	}
	x, ok1 := a.(*SliceV)
	y, ok2 := b.(*SliceV)
	if !ok1 || !ok2 {
		return nil
	}
	if x.Obj != y.Obj || len(x.Path) != len(y.Path) {
		return TFalse
	}
	return And(Eq(x.Off, y.Off), Eq(x.Len, y.Len))
}

func (ex *Exec) specErrorOnce(msg string) {
	for _, e := range ex.Specs.Errors {
		if e == msg {
			return
		}
	}
	ex.Specs.Errors = append(ex.Specs.Errors, msg)
}

// checkLeftEarly is called at every return of a frame: a covered loop that was left from its body obliges the
// function to report an error (its last result); a function without an error result may not leave early at all.
// errGoal: the function's last result is a non-nil error (false for functions without an error result).
func errGoal(fr *Frame, res Value) *Term {
	var last Value = res
	if t, ok := res.(*TupleV); ok && len(t.E) > 0 {
		last = t.E[len(t.E)-1]
	}
	rs := fr.Fn.Signature.Results()
	if rs.Len() > 0 && rs.At(rs.Len()-1).Type().String() == "error" {
		if iv, ok := last.(*IfaceV); ok && iv.ID != nil {
			return Neq(iv.ID, IntC(0))
		}
	}
	return TFalse
}

// checkCoverReached is called at every return of a function with covers clauses: a return on a path that never
// entered the covered loop is allowed only when the function fails or there was nothing to range over (a guard in
// front of the loop must not let a non-empty collection through unexamined).
func (ex *Exec) checkCoverReached(st *State, fr *Frame, res Value) {
	for _, c := range ex.coverClauses(fr) {
		if fr.CoverReached[c] {
			continue
		}
		found := false
		for _, l := range ex.loopInfo(fr.Fn).Loops {
			if baselineLoopOrdinal(fr.Fn, l.Ordinal) == c.Loop {
				found = true
			}
		}
		if !found {
			continue
		}
		var errs []string
		env := &Env{ex: ex, st: st, names: ex.loopNames(st, fr, nil), errs: &errs}
		want := env.evalSE(&c.Expr)
		var empty *Term
		switch w := want.(type) {
		case *SliceV:
			empty = Eq(w.Len, IntC(0))
		case *MapV:
			if ms := ex.mapState(st, w); ms != nil && ms.Len != nil {
				empty = Eq(ms.Len, IntC(0))
			}
		}
		if empty == nil {
			// the collection does not exist on this path (the call that yields it was not reached): the function
			// left before there was anything to examine
			continue
		}
		label := c.Label
		if label == "" {
			label = "covers"
		}
		ex.record(st, &Obligation{Name: fmt.Sprintf("%s/covers#%d/%s/loop-reached", ex.fnName(fr.Fn), c.Loop, label), Kind: "covers",
			Goal: Or(empty, errGoal(fr, res)), Props: c.Props, Fn: fr.Fn.String()})
	}
}

func (ex *Exec) checkLeftEarly(st *State, fr *Frame, res Value) {
	for _, c := range fr.LeftEarly {
		label := c.Label
		if label == "" {
			label = "covers"
		}
		goal := TFalse
		var last Value = res
		if t, ok := res.(*TupleV); ok && len(t.E) > 0 {
			last = t.E[len(t.E)-1]
		}
		rs := fr.Fn.Signature.Results()
		if rs.Len() > 0 && rs.At(rs.Len()-1).Type().String() == "error" {
			if iv, ok := last.(*IfaceV); ok && iv.ID != nil {
				goal = Neq(iv.ID, IntC(0))
			}
		}
		ex.record(st, &Obligation{Name: fmt.Sprintf("%s/covers#%d/%s/not-left-early", ex.fnName(fr.Fn), c.Loop, label), Kind: "covers", Goal: goal, Props: c.Props, Fn: fr.Fn.String()})
	}
}
