package main

import (
	"fmt"
	"go/token"
	"strings"

	"golang.org/x/tools/go/ssa"
)

// `loop#k covers <expr>`: the k-th loop of the function is a range over exactly the slice <expr> (evaluated over the
// entry values of the parameters), and it is left only because the range is exhausted. Together with the clauses that
// hold for one arbitrary iteration (invariants, precede/respond/never clauses over the `range.next` event) this gives a
// statement about EVERY element of the slice: a Go range over a slice visits the indices 0..len-1 in order, once each.
// Two obligations per clause:
//   fn/covers#k/<label>/whole-slice : at loop entry the ranged operand has the base, offset and length of <expr>
//   fn/covers#k/<label>/not-left-early : no edge from the body (other than the header's exhaustion exit) leaves the loop

// rangeLoop recognises the SSA shape of `for i, x := range s` over a slice or array pointer:
//
//	header: rangeindex = phi [-1, incr]; incr = rangeindex + 1; cond = incr < len(s); if cond goto body else done
//
// and returns the ranged operand, incr and the in-loop successor of the header.
func rangeLoop(lp *Loop) (ranged ssa.Value, incr ssa.Value, body *ssa.BasicBlock) {
	h := lp.Header
	if len(h.Instrs) == 0 {
		return nil, nil, nil
	}
	iff, ok := h.Instrs[len(h.Instrs)-1].(*ssa.If)
	if !ok {
		return nil, nil, nil
	}
	cmp, ok := iff.Cond.(*ssa.BinOp)
	if !ok || cmp.Op != token.LSS {
		return nil, nil, nil
	}
	if phi, ok := cmp.X.(*ssa.Phi); ok && phi.Block() == h {
		return countedLoop(lp, cmp, phi)
	}
	add, ok := cmp.X.(*ssa.BinOp)
	if !ok || add.Op != token.ADD {
		return nil, nil, nil
	}
	phi, ok := add.X.(*ssa.Phi)
	if !ok || phi.Comment != "rangeindex" || phi.Block() != h {
		return nil, nil, nil
	}
	call, ok := cmp.Y.(*ssa.Call)
	if !ok {
		return nil, nil, nil
	}
	if b, ok := call.Call.Value.(*ssa.Builtin); !ok || b.Name() != "len" || len(call.Call.Args) != 1 {
		return nil, nil, nil
	}
	if len(h.Succs) != 2 || !lp.Body[h.Succs[0]] || lp.Body[h.Succs[1]] {
		return nil, nil, nil
	}
	return call.Call.Args[0], add, h.Succs[0]
}

// countedLoop recognises the hand-written form `for i := 0; i < len(s); i++ { ... s[i] ... }`:
//
//	header: i = phi [0, i+1]; cond = i < len(s); if cond goto body else done
//
// with s defined outside the loop and i changed by nothing but the increment (it is an SSA phi with exactly these
// two sources). The index of the step is i itself.
func countedLoop(lp *Loop, cmp *ssa.BinOp, phi *ssa.Phi) (ssa.Value, ssa.Value, *ssa.BasicBlock) {
	h := lp.Header
	call, ok := cmp.Y.(*ssa.Call)
	if !ok {
		return nil, nil, nil
	}
	if b, ok := call.Call.Value.(*ssa.Builtin); !ok || b.Name() != "len" || len(call.Call.Args) != 1 {
		return nil, nil, nil
	}
	x := call.Call.Args[0]
	if ins, ok := x.(ssa.Instruction); ok && lp.Body[ins.Block()] {
		return nil, nil, nil // the slice is recomputed inside the loop
	}
	if len(h.Succs) != 2 || !lp.Body[h.Succs[0]] || lp.Body[h.Succs[1]] || len(phi.Edges) != len(h.Preds) {
		return nil, nil, nil
	}
	for i, e := range phi.Edges {
		if lp.Body[h.Preds[i]] {
			inc, ok := e.(*ssa.BinOp)
			if !ok || inc.Op != token.ADD || inc.X != phi {
				return nil, nil, nil
			}
			if c, ok := inc.Y.(*ssa.Const); !ok || c.Value == nil || c.Int64() != 1 {
				return nil, nil, nil
			}
		} else {
			if c, ok := e.(*ssa.Const); !ok || c.Value == nil || c.Int64() != 0 {
				return nil, nil, nil
			}
		}
	}
	return x, phi, h.Succs[0]
}

func (ex *Exec) coverClauses(fr *Frame) []*Clause {
	if ex.Specs == nil {
		return nil
	}
	ct := ex.Specs.Contracts[fr.Fn.String()]
	if ct == nil {
		return nil
	}
	return ct.Covers
}

// onEdge is called for every control-flow edge taken in the top frame (before the loop machinery of jump).
func (ex *Exec) onEdge(st *State, fr *Frame, from, to *ssa.BasicBlock) {
	li := ex.loopInfo(fr.Fn)
	if len(li.Loops) == 0 {
		return
	}
	// "range.next": one step of a range over a slice (a0 = the slice, a1 = the index; ar0 = the element)
	if lp := li.ByHeader[from]; lp != nil && from != nil && lp.Body[to] && to != from {
		if ranged, incr, body := rangeLoop(lp); ranged != nil && body == to {
			if sv, ok := ex.eval(fr, ranged).(*SliceV); ok && sv.Obj != nil {
				idx := ex.asTerm(ex.eval(fr, incr))
				p := &PtrV{Nil: TFalse, Obj: sv.Obj, Path: append(append([]PathEl(nil), sv.Path...), PathEl{Idx: Add(sv.Off, idx)})}
				el := ex.load(st, p, sv.Elem)
				ex.event(st, &Event{Callee: fmt.Sprintf("range.next#%d", baselineLoopOrdinal(fr.Fn, lp.Ordinal)), Args: []Value{sv, idx}, Results: []Value{el}, Instr: from.Instrs[len(from.Instrs)-1], Fn: fr.Fn, Kind: "rangenext"})
			}
		}
	}
	cov := ex.coverClauses(fr)
	if len(cov) == 0 {
		return
	}
	for _, c := range cov {
		var lp *Loop
		for _, l := range li.Loops {
			if baselineLoopOrdinal(fr.Fn, l.Ordinal) == c.Loop {
				lp = l
			}
		}
		if lp == nil {
			ex.specErrorOnce(fmt.Sprintf("%s: covers: %s has no loop#%d", c.Line, ex.fnName(fr.Fn), c.Loop))
			continue
		}
		label := c.Label
		if label == "" {
			label = "covers"
		}
		base := fmt.Sprintf("%s/covers#%d/%s", ex.fnName(fr.Fn), c.Loop, label)
		if to == lp.Header && (from == nil || !lp.Body[from]) {
			ranged, _, _ := rangeLoop(lp)
			if ranged == nil {
				ex.specErrorOnce(fmt.Sprintf("%s: covers: loop#%d of %s is not a range over a slice", c.Line, c.Loop, ex.fnName(fr.Fn)))
				continue
			}
			var errs []string
			env := &Env{ex: ex, st: st, names: ex.loopNames(st, fr, lp), errs: &errs}
			want := env.evalSE(&c.Expr)
			cur := ex.eval(fr, ranged)
			goal := sameSliceTerm(cur, want)
			if goal == nil {
				ex.specErrorOnce(fmt.Sprintf("%s: covers %q: not a slice (%s)", c.Line, c.Src, strings.Join(errs, "; ")))
				continue
			}
			ex.record(st, &Obligation{Name: base + "/whole-slice", Kind: "covers", Goal: goal, Props: c.Props, Fn: fr.Fn.String()})
		}
		if from != nil && from != lp.Header && lp.Body[from] && !lp.Body[to] {
			ex.record(st, &Obligation{Name: base + "/not-left-early", Kind: "covers", Goal: TFalse, Props: c.Props, Fn: fr.Fn.String()})
		}
	}
}

func sameSliceTerm(a, b Value) *Term {
	x, ok1 := a.(*SliceV)
	y, ok2 := b.(*SliceV)
	if !ok1 || !ok2 {
		return nil
	}
	if x.Obj != y.Obj || len(x.Path) != len(y.Path) {
		return TFalse
	}
	return And(Eq(x.Off, y.Off), Eq(x.Len, y.Len))
}

func (ex *Exec) specErrorOnce(msg string) {
	for _, e := range ex.Specs.Errors {
		if e == msg {
			return
		}
	}
	ex.Specs.Errors = append(ex.Specs.Errors, msg)
}
