package main

import (
	"fmt"
	"go/types"
	"regexp"
	"strings"

	"golang.org/x/tools/go/ssa"
)

// Value is a symbolic Go value. Scalars (ints, bools, strings, byte arrays, opaque external
// structs) are *Term; composites are the Go-side structures below. All values are immutable.
type Value interface{}

type StructV struct {
	T *types.Struct
	F []Value
}
type ArrV struct {
	Elem types.Type
	E    []Value
}

// SymSeq is a backing store of symbolic length whose elements are created lazily.
type SymSeq struct {
	ID    int
	Elem  types.Type
	Known map[string]Value // idx key -> value (immutable; copy on write)
	Name  string
}

type PathEl struct {
	Field int   // struct field index (when Idx == nil && !Sub)
	Idx   *Term // array / backing index
	SubN  int   // >0: view of N bytes starting at Idx (slice -> array pointer)
}

type PtrV struct {
	Nil  *Term
	Obj  *Object
	Path []PathEl
}
type SliceV struct {
	Nil           *Term
	Obj           *Object
	Path          []PathEl // location of the backing store inside Obj
	Off, Len, Cap *Term
	Elem          types.Type
}
type IfaceV struct {
	Lib    bool   // error created by an external library call: never one of the repository's sentinel errors
	Origin string // module of the external library that made the error (it is never a sentinel of ANOTHER library)
	ID     *Term  // Int; 0 == nil interface
	Dyn    types.Type
	Val    Value
	JoinOf []*IfaceV
}
type MapV struct {
	Nil *Term
	Obj *Object
	T   *types.Map
}
type MapState struct {
	DagOf *Object // map returned by dag.GetLeaves/GetRoots/GetVertices: values are the graph's vertices
	Has   *Term   // (Array K Bool)
	Vals  Value   // shape of arrays, nil if values are not modelled
	Len   *Term
}
type ChanV struct {
	Nil *Term
	Obj *Object
}
type FuncV struct {
	Fn   *ssa.Function
	Bind []Value
	Nil  *Term
	// Bound method closure (x.f as value): receiver in Bind[0]
}
type TupleV struct{ E []Value }

// Object is a heap cell. Lazily created objects (symbolic inputs) carry their initial value
// generator so that every state (and the pre-state) sees the same initial content.
type Object struct {
	ID     int
	Typ    types.Type
	Name   string
	Sym    bool // pre-existing (symbolic) object, not allocated by the executed code
	init   Value
	initFn func() Value
	Site   ssa.Instruction
	Global *ssa.Global
	Const  bool  // never written (package-level error values)
	Ident  *Term // integer identity when stored in a ghost graph
}

func (o *Object) Initial() Value {
	if o.init == nil && o.initFn != nil {
		o.init = o.initFn()
		o.initFn = nil
	}
	return o.init
}

var sanitizeRe = regexp.MustCompile(`[^A-Za-z0-9_]`)

func sanitize(s string) string { return sanitizeRe.ReplaceAllString(s, "_") }

// ---- type classification ----

const modulePrefix = "github.com/bartossh/Computantis/src"

func isByte(t types.Type) bool {
	b, ok := t.Underlying().(*types.Basic)
	return ok && (b.Kind() == types.Uint8)
}

// isByteArray: byte arrays longer than 8 are modelled as one byte-string term (hashes, digests);
// shorter ones are per-cell arrays.
func isByteArray(t types.Type) bool {
	a, ok := t.Underlying().(*types.Array)
	return ok && isByte(a.Elem()) && a.Len() > 8
}
func isByteSlice(t types.Type) bool {
	s, ok := t.Underlying().(*types.Slice)
	return ok && isByte(s.Elem())
}
func isString(t types.Type) bool {
	b, ok := t.Underlying().(*types.Basic)
	return ok && b.Info()&types.IsString != 0
}
func isInteger(t types.Type) bool {
	b, ok := t.Underlying().(*types.Basic)
	return ok && b.Info()&types.IsInteger != 0
}
func isBool(t types.Type) bool {
	b, ok := t.Underlying().(*types.Basic)
	return ok && b.Info()&types.IsBoolean != 0
}
func isFloat(t types.Type) bool {
	b, ok := t.Underlying().(*types.Basic)
	return ok && b.Info()&(types.IsFloat|types.IsComplex) != 0
}
func intBits(t types.Type) (bits int, signed bool) {
	b := t.Underlying().(*types.Basic)
	switch b.Kind() {
	case types.Int8:
		return 8, true
	case types.Int16:
		return 16, true
	case types.Int32:
		return 32, true
	case types.Int64, types.Int, types.UntypedInt, types.UntypedRune:
		return 64, true
	case types.Uint8:
		return 8, false
	case types.Uint16:
		return 16, false
	case types.Uint32:
		return 32, false
	case types.Uint64, types.Uint, types.Uintptr:
		return 64, false
	}
	return 64, true
}

// opaqueSort returns a sort name if values of t are modelled as one opaque term.
func opaqueSort(t types.Type) (string, bool) {
	if isFloat(t) {
		return "T_float", true
	}
	if b, ok := t.Underlying().(*types.Basic); ok && b.Kind() == types.UnsafePointer {
		return "T_unsafe", true
	}
	n, ok := t.(*types.Named)
	if !ok {
		if a, ok2 := t.(*types.Alias); ok2 {
			return opaqueSort(types.Unalias(a))
		}
		return "", false
	}
	if _, isStruct := n.Underlying().(*types.Struct); !isStruct {
		return "", false
	}
	pkg := n.Obj().Pkg()
	if pkg != nil && strings.HasPrefix(pkg.Path(), modulePrefix) {
		return "", false
	}
	name := "T_"
	if pkg != nil {
		name += sanitize(pkg.Path()) + "_"
	}
	return name + sanitize(n.Obj().Name()), true
}

// sortOf gives the SMT sort for scalar-modelled types ("" when composite).
func sortOf(t types.Type) string {
	if s, ok := opaqueSort(t); ok {
		return s
	}
	switch {
	case isInteger(t):
		return SInt
	case isBool(t):
		return SBool
	case isString(t), isByteArray(t):
		return SB
	}
	return ""
}

// ---- fresh symbolic values ----

type Gen struct {
	n       int
	objN    int
	facts   map[string][]*Term // var name -> facts about it
	lens    map[string]*Term   // B term key -> known length
	errIDs  map[string]int64
	strIDs  map[string]string
	strLits map[string]string // const name -> literal
	nonNil  bool              // lazily created pointers are non-nil
}

func NewGen() *Gen {
	return &Gen{facts: map[string][]*Term{}, lens: map[string]*Term{}, errIDs: map[string]int64{}, strIDs: map[string]string{}, strLits: map[string]string{}}
}

func (g *Gen) name(hint string) string {
	g.n++
	return fmt.Sprintf("%s_%d", sanitize(hint), g.n)
}

func (g *Gen) NewObject(t types.Type, name string) *Object {
	g.objN++
	return &Object{ID: g.objN, Typ: t, Name: name}
}

func (g *Gen) FreshInt(hint string, t types.Type) *Term {
	v := Var(g.name(hint), SInt)
	bits, signed := intBits(t)
	if signed {
		h := Pow2(bits - 1)
		g.facts[v.Name] = []*Term{Ge(v, IntB(new(bigInt).Neg(h))), Lt(v, IntB(h))}
	} else {
		g.facts[v.Name] = []*Term{Ge(v, IntC(0)), Lt(v, IntB(Pow2(bits)))}
	}
	return v
}

func (g *Gen) FreshBytes(hint string, n int) *Term {
	v := Var(g.name(hint), SB)
	if n >= 0 {
		g.lens[v.Key()] = IntC(int64(n))
		g.facts[v.Name] = []*Term{Eq(App("blen", SInt, v), IntC(int64(n)))}
	} else {
		// explicit length variable so that solver models expose the length of every symbolic byte string
		l := Var(g.name(hint+"_len"), SInt)
		g.lens[v.Key()] = l
		g.facts[l.Name] = []*Term{Ge(l, IntC(0)), Le(l, IntB(Pow2(40)))} // physical bound on any in-memory string (assumption A14)
		g.facts[v.Name] = []*Term{Eq(App("blen", SInt, v), l)}
	}
	return v
}

func (g *Gen) StrConst(s string) *Term {
	name, ok := g.strIDs[s]
	if !ok {
		name = fmt.Sprintf("strc_%d", len(g.strIDs))
		if s == "" {
			name = "strc_empty"
		}
		g.strIDs[s] = name
		g.strLits[name] = s
	}
	t := App(name, SB)
	g.lens[t.Key()] = IntC(int64(len(s)))
	return t
}

// Fresh creates an unconstrained symbolic value of type t.
func (g *Gen) Fresh(t types.Type, hint string) Value {
	if s, ok := opaqueSort(t); ok {
		return Var(g.name(hint), s)
	}
	switch u := t.Underlying().(type) {
	case *types.Basic:
		switch {
		case u.Info()&types.IsInteger != 0:
			return g.FreshInt(hint, t)
		case u.Info()&types.IsBoolean != 0:
			return Var(g.name(hint), SBool)
		case u.Info()&types.IsString != 0:
			return g.FreshBytes(hint, -1)
		}
		return Var(g.name(hint), "T_"+sanitize(u.Name()))
	case *types.Array:
		if isByteArray(u) {
			return g.FreshBytes(hint, int(u.Len()))
		}
		if u.Len() <= 64 {
			a := &ArrV{Elem: u.Elem()}
			for i := 0; i < int(u.Len()); i++ {
				a.E = append(a.E, g.Fresh(u.Elem(), fmt.Sprintf("%s_%d", hint, i)))
			}
			return a
		}
		return Var(g.name(hint), "T_bigarray")
	case *types.Struct:
		sv := &StructV{T: u}
		for i := 0; i < u.NumFields(); i++ {
			sv.F = append(sv.F, g.Fresh(u.Field(i).Type(), hint+"_"+u.Field(i).Name()))
		}
		return sv
	case *types.Pointer:
		nilT := Var(g.name(hint+"_isnil"), SBool)
		if g.nonNil {
			nilT = TFalse
		}
		obj := g.NewObject(u.Elem(), hint)
		obj.Sym = true
		et := u.Elem()
		obj.initFn = func() Value { return g.Fresh(et, hint+"_p") }
		return &PtrV{Nil: nilT, Obj: obj}
	case *types.Slice:
		return g.FreshSlice(u.Elem(), hint)
	case *types.Map:
		obj := g.NewObject(t, hint)
		obj.Sym = true
		obj.initFn = func() Value { return g.FreshMapState(u, hint) }
		return &MapV{Nil: Var(g.name(hint+"_isnil"), SBool), Obj: obj, T: u}
	case *types.Interface:
		id := g.FreshInt(hint+"_iface", types.Typ[types.Int64])
		g.facts[id.Name] = append(g.facts[id.Name], Ge(id, IntC(0)))
		if g.nonNil && !isErrorType(t) {
			g.facts[id.Name] = append(g.facts[id.Name], Gt(id, IntC(0)))
		}
		return &IfaceV{ID: id}
	case *types.Chan:
		obj := g.NewObject(t, hint)
		obj.Sym = true
		return &ChanV{Nil: Var(g.name(hint+"_isnil"), SBool), Obj: obj}
	case *types.Signature:
		return &FuncV{Nil: Var(g.name(hint+"_isnil"), SBool)}
	case *types.Tuple:
		tv := &TupleV{}
		for i := 0; i < u.Len(); i++ {
			tv.E = append(tv.E, g.Fresh(u.At(i).Type(), fmt.Sprintf("%s_%d", hint, i)))
		}
		return tv
	}
	return Var(g.name(hint), "T_unknown")
}

func (g *Gen) FreshSlice(elem types.Type, hint string) *SliceV {
	obj := g.NewObject(types.NewSlice(elem), hint+"_backing")
	obj.Sym = true
	var ln *Term
	if isByte(elem) {
		c := g.FreshBytes(hint+"_content", -1)
		obj.init = c
		ln = g.BLen(c)
	} else {
		lv := g.FreshInt(hint+"_len", types.Typ[types.Int])
		g.facts[lv.Name] = append(g.facts[lv.Name], Ge(lv, IntC(0)), Le(lv, IntB(Pow2(40))))
		ln = lv
		g.n++
		obj.init = &SymSeq{ID: g.n, Elem: elem, Name: hint}
	}
	nilT := Var(g.name(hint+"_isnil"), SBool)
	g.facts[nilT.Name] = []*Term{Implies(nilT, Eq(ln, IntC(0)))}
	return &SliceV{Nil: nilT, Obj: obj, Off: IntC(0), Len: ln, Cap: ln, Elem: elem}
}

func (g *Gen) FreshMapState(m *types.Map, hint string) *MapState {
	ks := sortOf(m.Key())
	if ks == "" {
		ks = "T_key"
	}
	ms := &MapState{Has: Var(g.name(hint+"_has"), ArrSort(ks, SBool))}
	ms.Vals = g.freshArrShape(ks, m.Elem(), hint+"_val")
	l := g.FreshInt(hint+"_maplen", types.Typ[types.Int])
	g.facts[l.Name] = append(g.facts[l.Name], Ge(l, IntC(0)), Le(l, IntB(Pow2(40))))
	ms.Len = l
	return ms
}

// freshArrShape builds a value-shaped tree whose leaves are arrays keyed by ks.
func (g *Gen) freshArrShape(ks string, t types.Type, hint string) Value {
	if s := sortOf(t); s != "" {
		return Var(g.name(hint), ArrSort(ks, s))
	}
	if st, ok := t.Underlying().(*types.Struct); ok {
		sv := &StructV{T: st}
		for i := 0; i < st.NumFields(); i++ {
			sv.F = append(sv.F, g.freshArrShape(ks, st.Field(i).Type(), hint+"_"+st.Field(i).Name()))
		}
		return sv
	}
	return nil
}

// BLen returns the length term of a byte string, using known lengths where available.
func (g *Gen) BLen(t *Term) *Term {
	if l, ok := g.lens[t.Key()]; ok {
		return l
	}
	if t.Op == "app" {
		switch t.Name {
		case "bsub":
			return t.Args[2]
		case "bcat":
			return Add(g.BLen(t.Args[0]), g.BLen(t.Args[1]))
		case "le64":
			return IntC(8)
		case "bupd":
			return g.BLen(t.Args[0])
		case "bzero":
			return t.Args[0]
		}
	}
	if t.Op == "ite" {
		return Ite(t.Args[0], g.BLen(t.Args[1]), g.BLen(t.Args[2]))
	}
	return App("blen", SInt, t)
}

func (g *Gen) BSub(t, off, n *Term) *Term {
	if off.IsConstInt() && off.I.Sign() == 0 && g.BLen(t).Key() == n.Key() {
		return t
	}
	if t.Op == "app" && t.Name == "bsub" {
		return g.BSub(t.Args[0], Add(t.Args[1], off), n)
	}
	return App("bsub", SB, t, off, n)
}

// BCat concatenates; the result is kept left-nested so that equal concatenations are the same term.
func (g *Gen) BCat(a, b *Term) *Term {
	if l := g.BLen(a); l.IsConstInt() && l.I.Sign() == 0 {
		return b
	}
	if l := g.BLen(b); l.IsConstInt() && l.I.Sign() == 0 {
		return a
	}
	if b.Op == "app" && b.Name == "bcat" {
		return g.BCat(g.BCat(a, b.Args[0]), b.Args[1])
	}
	return App("bcat", SB, a, b)
}

func (g *Gen) BZero(n *Term) *Term {
	t := App("bzero", SB, n)
	return t
}

// Zero value of a type.
func (g *Gen) Zero(t types.Type) Value {
	if s, ok := opaqueSort(t); ok {
		return App("zero_"+s, s)
	}
	switch u := t.Underlying().(type) {
	case *types.Basic:
		switch {
		case u.Info()&types.IsInteger != 0:
			return IntC(0)
		case u.Info()&types.IsBoolean != 0:
			return TFalse
		case u.Info()&types.IsString != 0:
			return g.StrConst("")
		}
		return App("zero_T_"+sanitize(u.Name()), "T_"+sanitize(u.Name()))
	case *types.Array:
		if isByteArray(u) {
			return g.BZero(IntC(u.Len()))
		}
		if u.Len() <= 64 {
			a := &ArrV{Elem: u.Elem()}
			for i := 0; i < int(u.Len()); i++ {
				a.E = append(a.E, g.Zero(u.Elem()))
			}
			return a
		}
		return App("zero_T_bigarray", "T_bigarray")
	case *types.Struct:
		sv := &StructV{T: u}
		for i := 0; i < u.NumFields(); i++ {
			sv.F = append(sv.F, g.Zero(u.Field(i).Type()))
		}
		return sv
	case *types.Pointer:
		return &PtrV{Nil: TTrue}
	case *types.Slice:
		return &SliceV{Nil: TTrue, Off: IntC(0), Len: IntC(0), Cap: IntC(0), Elem: u.Elem()}
	case *types.Map:
		return &MapV{Nil: TTrue, T: u}
	case *types.Interface:
		return &IfaceV{ID: IntC(0)}
	case *types.Chan:
		return &ChanV{Nil: TTrue}
	case *types.Signature:
		return &FuncV{Nil: TTrue}
	case *types.Tuple:
		tv := &TupleV{}
		for i := 0; i < u.Len(); i++ {
			tv.E = append(tv.E, g.Zero(u.At(i).Type()))
		}
		return tv
	}
	return App("zero_T_unknown", "T_unknown")
}

// BAt reads one byte of a byte string, folding over updates at constant indices.
func (g *Gen) BAt(x, i *Term) *Term {
	cur := x
	for cur.Op == "app" && cur.Name == "bupd" {
		e := Eq(cur.Args[1], i)
		if e.IsTrue() {
			return cur.Args[2]
		}
		if e.IsFalse() {
			cur = cur.Args[0]
			continue
		}
		break
	}
	if cur.Op == "app" && cur.Name == "bzero" {
		return IntC(0)
	}
	return App("bat", SInt, cur, i)
}
