package main

import (
	"fmt"
	"go/ast"
	"go/token"
	"go/types"

	"golang.org/x/tools/go/ssa"
)

func (ex *Exec) set(fr *Frame, v ssa.Value, val Value) { fr.Locals[v] = val }

func (ex *Exec) asTerm(v Value) *Term {
	if t, ok := v.(*Term); ok {
		return t
	}
	panic(fmt.Sprintf("expected scalar term, got %T", v))
}

func (ex *Exec) nilTerm(v Value) *Term {
	switch x := v.(type) {
	case *PtrV:
		return x.Nil
	case *SliceV:
		return x.Nil
	case *MapV:
		return x.Nil
	case *ChanV:
		return x.Nil
	case *FuncV:
		if x.Nil == nil {
			return TFalse
		}
		return x.Nil
	case *IfaceV:
		return Eq(x.ID, IntC(0))
	}
	return TFalse
}

func (ex *Exec) execInstr(st *State, fr *Frame, ins ssa.Instruction) {
	switch v := ins.(type) {
	case *ssa.DebugRef:
		if id, ok := v.Expr.(*ast.Ident); ok && id.Name != "_" {
			if fr.Names == nil {
				fr.Names = map[string]Value{}
			} else {
				// copy on write: frames are cloned shallowly
				n := make(map[string]Value, len(fr.Names)+1)
				for k, x := range fr.Names {
					n[k] = x
				}
				fr.Names = n
			}
			val := ex.eval(fr, v.X)
			if v.IsAddr {
				fr.Names["&"+id.Name] = val
			} else {
				fr.Names[id.Name] = val
			}
		}
	case *ssa.Alloc:
		et := v.Type().Underlying().(*types.Pointer).Elem()
		obj := ex.G.NewObject(et, v.Comment)
		obj.Site = v
		st.Heap[obj] = ex.G.Zero(et)
		ex.set(fr, v, &PtrV{Nil: TFalse, Obj: obj})
	case *ssa.FieldAddr:
		p := ex.eval(fr, v.X).(*PtrV)
		ex.safety(st, "nil", Not(p.Nil), ins, v.X)
		np := &PtrV{Nil: TFalse, Obj: p.Obj, Path: append(append([]PathEl(nil), p.Path...), PathEl{Field: v.Field})}
		ex.set(fr, v, np)
	case *ssa.Field:
		sv := ex.eval(fr, v.X)
		if s, ok := sv.(*StructV); ok {
			ex.set(fr, v, s.F[v.Field])
		} else {
			ex.set(fr, v, ex.G.Fresh(v.Type(), "field"))
		}
	case *ssa.IndexAddr:
		ex.indexAddr(st, fr, v)
	case *ssa.Index:
		ex.index(st, fr, v)
	case *ssa.UnOp:
		ex.unop(st, fr, v)
	case *ssa.BinOp:
		ex.set(fr, v, ex.binop(st, fr, v, v.Op, ex.eval(fr, v.X), ex.eval(fr, v.Y), v.X.Type(), v.Type()))
	case *ssa.Store:
		p := ex.eval(fr, v.Addr).(*PtrV)
		ex.safety(st, "nil", Not(p.Nil), ins, v.Addr)
		ex.store(st, p, ex.eval(fr, v.Val))
		if p.Obj != nil && p.Obj.Sym {
			ex.event(st, &Event{Callee: "mem.store", Args: []Value{&PtrV{Nil: TFalse, Obj: p.Obj}, p}, Instr: ins, Fn: fr.Fn, Kind: "store"})
		}
	case *ssa.Phi:
		// handled at block entry (non-header blocks)
		predIdx := -1
		for i, p := range fr.Block.Preds {
			if p == fr.Prev {
				predIdx = i
			}
		}
		if predIdx >= 0 {
			// parallel assignment: evaluate all phis of this block first
			fr.Idx--
			ex.phis(st, fr)
		} else {
			ex.set(fr, v, ex.G.Fresh(v.Type(), "phi"))
		}
	case *ssa.Jump:
		ex.jump(st, fr.Block.Succs[0])
	case *ssa.If:
		c := ex.asTerm(ex.eval(fr, v.Cond))
		switch st.Decide(c) {
		case 1:
			ex.jump(st, fr.Block.Succs[0])
		case -1:
			ex.jump(st, fr.Block.Succs[1])
		default:
			other := ex.fork(st)
			other.Assume(Not(c))
			if !other.Dead {
				ex.jump(other, other.Top().Block.Succs[1])
				ex.push(other)
			}
			st.Assume(c)
			if !st.Dead {
				ex.jump(st, fr.Block.Succs[0])
			}
		}
	case *ssa.Return:
		var res Value
		switch len(v.Results) {
		case 0:
			res = &TupleV{}
		case 1:
			res = ex.eval(fr, v.Results[0])
		default:
			t := &TupleV{}
			for _, r := range v.Results {
				t.E = append(t.E, ex.eval(fr, r))
			}
			res = t
		}
		ex.doReturn(st, fr, res)
	case *ssa.RunDefers:
		ex.runDefers(st, fr)
	case *ssa.Panic:
		if ex.Cfg.Safety {
			name := fmt.Sprintf("%s/safety:panic/%s", ex.fnName(ins.Parent()), ex.operandText(ins, v.X))
			ex.oblige(st, "safety:panic", name, TFalse, ins, ex.Cfg.SafetyProps)
		}
		st.Dead = true
	case *ssa.Call:
		ex.call(st, fr, v, &v.Call, v)
	case *ssa.Defer:
		d := &deferred{Call: &v.Call, Instr: v}
		if !v.Call.IsInvoke() {
			d.Fn = ex.eval(fr, v.Call.Value)
		} else {
			d.Fn = ex.eval(fr, v.Call.Value)
		}
		for _, a := range v.Call.Args {
			d.Args = append(d.Args, ex.eval(fr, a))
		}
		fr.Defers = append(fr.Defers, d)
	case *ssa.Go:
		var args []Value
		for _, a := range v.Call.Args {
			args = append(args, ex.eval(fr, a))
		}
		name := "go:" + calleeName(&v.Call)
		ex.event(st, &Event{Callee: name, Args: args, Instr: ins, Fn: fr.Fn, Kind: "go"})
	case *ssa.Extract:
		t := ex.eval(fr, v.Tuple)
		if tv, ok := t.(*TupleV); ok && v.Index < len(tv.E) {
			ex.set(fr, v, tv.E[v.Index])
		} else {
			ex.set(fr, v, ex.G.Fresh(v.Type(), "extract"))
		}
	case *ssa.MakeInterface:
		x := ex.eval(fr, v.X)
		ex.set(fr, v, ex.makeIface(v.X.Type(), x))
	case *ssa.ChangeInterface:
		ex.set(fr, v, ex.eval(fr, v.X))
	case *ssa.ChangeType:
		ex.set(fr, v, ex.eval(fr, v.X))
	case *ssa.Convert:
		ex.set(fr, v, ex.convert(st, fr, v, ex.eval(fr, v.X), v.X.Type(), v.Type()))
	case *ssa.MultiConvert:
		ex.Unsupported["MultiConvert"]++
		ex.set(fr, v, ex.G.Fresh(v.Type(), "multiconvert"))
	case *ssa.TypeAssert:
		ex.typeAssert(st, fr, v)
	case *ssa.MakeClosure:
		fv := &FuncV{Fn: v.Fn.(*ssa.Function), Nil: TFalse}
		for _, b := range v.Bindings {
			fv.Bind = append(fv.Bind, ex.eval(fr, b))
		}
		ex.set(fr, v, fv)
	case *ssa.MakeChan:
		obj := ex.G.NewObject(v.Type(), "chan")
		obj.Site = v
		st.Heap[obj] = &StructV{}
		ex.set(fr, v, &ChanV{Nil: TFalse, Obj: obj})
	case *ssa.MakeMap:
		mt := v.Type().Underlying().(*types.Map)
		obj := ex.G.NewObject(v.Type(), "map")
		obj.Site = v
		ks := sortOf(mt.Key())
		if ks == "" {
			ks = "T_key"
		}
		ms := &MapState{Has: ConstArr(ArrSort(ks, SBool), TFalse), Len: IntC(0)}
		ms.Vals = ex.G.freshArrShape(ks, mt.Elem(), "mapval")
		st.Heap[obj] = ms
		ex.set(fr, v, &MapV{Nil: TFalse, Obj: obj, T: mt})
	case *ssa.MakeSlice:
		ex.makeSlice(st, fr, v)
	case *ssa.Slice:
		ex.sliceOp(st, fr, v)
	case *ssa.SliceToArrayPointer:
		s := ex.eval(fr, v.X).(*SliceV)
		at := v.Type().Underlying().(*types.Pointer).Elem().Underlying().(*types.Array)
		n := at.Len()
		ex.safety(st, "s2a", Ge(s.Len, IntC(n)), ins, v.X)
		if n == 0 {
			ex.set(fr, v, &PtrV{Nil: s.Nil, Obj: s.Obj, Path: append(append([]PathEl(nil), s.Path...), PathEl{Idx: s.Off, SubN: 0})})
			break
		}
		if isByte(at.Elem()) && n > 8 {
			ex.set(fr, v, &PtrV{Nil: TFalse, Obj: s.Obj, Path: append(append([]PathEl(nil), s.Path...), PathEl{Idx: s.Off, SubN: int(n)})})
		} else {
			ex.Unsupported["SliceToArrayPointer non-byte"]++
			obj := ex.G.NewObject(at, "s2a")
			ex.set(fr, v, &PtrV{Nil: TFalse, Obj: obj})
		}
	case *ssa.MapUpdate:
		ex.mapUpdate(st, fr, v)
	case *ssa.Lookup:
		ex.lookup(st, fr, v)
	case *ssa.Range:
		x := ex.eval(fr, v.X)
		ex.set(fr, v, &TupleV{E: []Value{x}}) // iterator = wrapper around the collection
	case *ssa.Next:
		ex.next(st, fr, v)
	case *ssa.Send:
		ch := ex.eval(fr, v.Chan)
		ex.event(st, &Event{Callee: "chan.send", Args: []Value{ch, ex.eval(fr, v.X)}, Instr: ins, Fn: fr.Fn, Kind: "send"})
	case *ssa.Select:
		ex.selectOp(st, fr, v)
	default:
		ex.Unsupported[fmt.Sprintf("%T", ins)]++
		if val, ok := ins.(ssa.Value); ok {
			ex.set(fr, val, ex.G.Fresh(val.Type(), "unsupported"))
		}
	}
}

func (ex *Exec) makeIface(t types.Type, x Value) Value {
	if iv, ok := x.(*IfaceV); ok {
		return iv
	}
	// a value wrapped in an interface is a non-nil interface value (even when it is a nil pointer); its
	// identity is a fresh positive constant (interface values of non-error types are never compared by the code)
	ex.ifaceN++
	return &IfaceV{ID: IntC(20000000 + ex.ifaceN), Dyn: t, Val: x}
}

func (ex *Exec) indexAddr(st *State, fr *Frame, v *ssa.IndexAddr) {
	idx := ex.asTerm(ex.eval(fr, v.Index))
	switch x := ex.eval(fr, v.X).(type) {
	case *SliceV:
		ex.safety(st, "index", And(Ge(idx, IntC(0)), Lt(idx, x.Len)), v, v.X)
		ex.set(fr, v, &PtrV{Nil: TFalse, Obj: x.Obj, Path: append(append([]PathEl(nil), x.Path...), PathEl{Idx: Add(x.Off, idx)})})
	case *PtrV:
		ex.safety(st, "nil", Not(x.Nil), v, v.X)
		at := v.X.Type().Underlying().(*types.Pointer).Elem().Underlying().(*types.Array)
		ex.safety(st, "index", And(Ge(idx, IntC(0)), Lt(idx, IntC(at.Len()))), v, v.X)
		ex.set(fr, v, &PtrV{Nil: TFalse, Obj: x.Obj, Path: append(append([]PathEl(nil), x.Path...), PathEl{Idx: idx})})
	default:
		ex.Unsupported["IndexAddr on unknown"]++
		ex.set(fr, v, ex.G.Fresh(v.Type(), "indexaddr"))
	}
}

func (ex *Exec) index(st *State, fr *Frame, v *ssa.Index) {
	idx := ex.asTerm(ex.eval(fr, v.Index))
	switch x := ex.eval(fr, v.X).(type) {
	case *ArrV:
		ex.safety(st, "index", And(Ge(idx, IntC(0)), Lt(idx, IntC(int64(len(x.E))))), v, v.X)
		ex.set(fr, v, ex.readPath(st, x, []PathEl{{Idx: idx}}, v.X.Type()))
	case *Term:
		if x.Sort == SB {
			ex.safety(st, "index", And(Ge(idx, IntC(0)), Lt(idx, ex.G.BLen(x))), v, v.X)
			b := ex.G.BAt(x, idx)
			ex.set(fr, v, b)
			return
		}
		ex.set(fr, v, ex.G.Fresh(v.Type(), "index"))
	default:
		ex.set(fr, v, ex.G.Fresh(v.Type(), "index"))
	}
}

func (ex *Exec) unop(st *State, fr *Frame, v *ssa.UnOp) {
	x := ex.eval(fr, v.X)
	switch v.Op {
	case token.MUL:
		p, ok := x.(*PtrV)
		if !ok {
			ex.set(fr, v, ex.G.Fresh(v.Type(), "deref"))
			return
		}
		ex.safety(st, "nil", Not(p.Nil), v, v.X)
		if st.Dead {
			return
		}
		ex.set(fr, v, ex.load(st, p, v.Type()))
	case token.NOT:
		ex.set(fr, v, Not(ex.asTerm(x)))
	case token.SUB:
		t := ex.asTerm(x)
		if t.Sort != SInt {
			ex.set(fr, v, ex.G.Fresh(v.Type(), "neg"))
			return
		}
		bits, signed := intBits(v.Type())
		r := Sub(IntC(0), t)
		if signed {
			r = WrapS1(r, bits)
		} else {
			r = WrapU1(r, bits)
		}
		ex.set(fr, v, r)
	case token.XOR:
		ex.Unsupported["unary ^"]++
		ex.set(fr, v, ex.G.Fresh(v.Type(), "xor"))
	case token.ARROW:
		ch := x
		ex.event(st, &Event{Callee: "chan.recv", Args: []Value{ch}, Instr: v, Fn: fr.Fn, Kind: "recv"})
		if cv, ok := ch.(*ChanV); ok && cv.Obj != nil && ex.walkerOf[cv.Obj] != nil && v.CommaOk {
			// ancestor walker: either the producer has finished and closed the channel (the walker is no
			// longer open) or it delivers the id of a vertex that is present in the graph (A2)
			dg := ex.walkerOf[cv.Obj]
			closed := ex.fork(st)
			cf := closed.Top()
			cf.Locals[v] = &TupleV{E: []Value{ex.G.StrConst(""), TFalse}}
			if closed.Open[cv.Obj] {
				n := map[*Object]bool{}
				for k, b := range closed.Open {
					if k != cv.Obj {
						n[k] = b
					}
				}
				closed.Open = n
			}
			ex.push(closed)
			k := ex.G.FreshBytes("ancestor_id", -1)
			st.Assume(Neq(Select(ex.dagVtx(st, dg), k), IntC(0)))
			ex.set(fr, v, &TupleV{E: []Value{k, TTrue}})
			return
		}
		if v.CommaOk {
			et := v.Type().(*types.Tuple).At(0).Type()
			ok := Var(ex.G.name("recvok"), SBool)
			ex.set(fr, v, &TupleV{E: []Value{ex.G.Fresh(et, "recv"), ok}})
		} else {
			ex.set(fr, v, ex.G.Fresh(v.Type(), "recv"))
		}
	default:
		ex.Unsupported["unop "+v.Op.String()]++
		ex.set(fr, v, ex.G.Fresh(v.Type(), "unop"))
	}
}

func (ex *Exec) valEq(st *State, a, b Value, t types.Type) *Term {
	if a == b {
		return TTrue
	}
	switch x := a.(type) {
	case *Term:
		y, ok := b.(*Term)
		if !ok || x.Sort != y.Sort {
			return Var(ex.G.name("eq"), SBool)
		}
		if x.Sort == SB {
			// the empty string is the only byte string of length 0
			if l := ex.G.BLen(y); l.IsConstInt() && l.I.Sign() == 0 {
				return Eq(ex.G.BLen(x), IntC(0))
			}
			if l := ex.G.BLen(x); l.IsConstInt() && l.I.Sign() == 0 {
				return Eq(ex.G.BLen(y), IntC(0))
			}
		}
		return Eq(x, y)
	case *StructV:
		y, ok := b.(*StructV)
		if !ok {
			return Var(ex.G.name("eq"), SBool)
		}
		var cs []*Term
		for i := range x.F {
			if x.T.Field(i).Name() == "_" {
				continue
			}
			cs = append(cs, ex.valEq(st, x.F[i], y.F[i], x.T.Field(i).Type()))
		}
		return And(cs...)
	case *ArrV:
		y, ok := b.(*ArrV)
		if !ok || len(x.E) != len(y.E) {
			return Var(ex.G.name("eq"), SBool)
		}
		var cs []*Term
		for i := range x.E {
			cs = append(cs, ex.valEq(st, x.E[i], y.E[i], x.Elem))
		}
		return And(cs...)
	case *PtrV:
		y, ok := b.(*PtrV)
		if !ok {
			return Var(ex.G.name("eq"), SBool)
		}
		return ex.ptrEq(x, y)
	case *IfaceV:
		y, ok := b.(*IfaceV)
		if !ok {
			return Var(ex.G.name("eq"), SBool)
		}
		// an error made by an external library is never one of the repository's sentinel errors
		if x.Lib && y.ID.IsConstInt() && ex.repoSentinel[y.ID.I.Int64()] || y.Lib && x.ID.IsConstInt() && ex.repoSentinel[x.ID.I.Int64()] {
			return TFalse
		}
		// an error made by one external library is never a sentinel error variable of another one
		foreign := func(a, b *IfaceV) bool {
			if !a.Lib || a.Origin == "" || !b.ID.IsConstInt() {
				return false
			}
			sp, ok := ex.sentinelPkg[b.ID.I.Int64()]
			return ok && sp != a.Origin
		}
		if foreign(x, y) || foreign(y, x) {
			return TFalse
		}
		return Eq(x.ID, y.ID)
	case *SliceV:
		// Go only allows comparison with nil; specs compare slice headers
		if y, ok := b.(*SliceV); ok {
			if y.Obj == nil {
				return x.Nil
			}
			if x.Obj == nil {
				return y.Nil
			}
			if x.Obj == y.Obj {
				return And(Eq(x.Off, y.Off), Eq(x.Len, y.Len), Eq(x.Cap, y.Cap))
			}
		}
	case *MapV:
		if y, ok := b.(*MapV); ok {
			if y.Obj == nil {
				return x.Nil
			}
			if x.Obj == nil {
				return y.Nil
			}
		}
	case *ChanV:
		if y, ok := b.(*ChanV); ok {
			if y.Obj == nil {
				return x.Nil
			}
			if x.Obj == nil {
				return y.Nil
			}
			if x.Obj == y.Obj {
				return TTrue
			}
		}
	case *FuncV:
		if y, ok := b.(*FuncV); ok {
			if y.Fn == nil && y.Nil != nil && y.Nil.IsTrue() {
				return ex.nilTerm(x)
			}
			if x.Fn == nil && x.Nil != nil && x.Nil.IsTrue() {
				return ex.nilTerm(y)
			}
		}
	}
	return Var(ex.G.name("eq"), SBool)
}

func (ex *Exec) ptrEq(x, y *PtrV) *Term {
	bothNil := And(x.Nil, y.Nil)
	if x.Obj == nil || y.Obj == nil {
		return bothNil
	}
	if x.Obj != y.Obj || len(x.Path) != len(y.Path) {
		return bothNil
	}
	same := TTrue
	for i := range x.Path {
		a, b := x.Path[i], y.Path[i]
		if (a.Idx == nil) != (b.Idx == nil) || a.SubN != b.SubN {
			return bothNil
		}
		if a.Idx != nil {
			same = And(same, Eq(a.Idx, b.Idx))
		} else if a.Field != b.Field {
			return bothNil
		}
	}
	return Or(bothNil, And(Not(x.Nil), Not(y.Nil), same))
}

func (ex *Exec) binop(st *State, fr *Frame, ins ssa.Instruction, op token.Token, a, b Value, opT, resT types.Type) Value {
	switch op {
	case token.EQL:
		return ex.valEq(st, a, b, opT)
	case token.NEQ:
		return Not(ex.valEq(st, a, b, opT))
	}
	x, ok1 := a.(*Term)
	y, ok2 := b.(*Term)
	if !ok1 || !ok2 {
		ex.Unsupported["binop on composite "+op.String()]++
		return ex.G.Fresh(resT, "binop")
	}
	if isString(opT) {
		switch op {
		case token.ADD:
			return ex.G.BCat(x, y)
		case token.LSS, token.LEQ, token.GTR, token.GEQ:
			return App("strcmp_"+sanitize(op.String()), SBool, x, y)
		}
	}
	if x.Sort == SBool {
		switch op {
		case token.AND, token.LAND:
			return And(x, y)
		case token.OR, token.LOR:
			return Or(x, y)
		}
	}
	if x.Sort != SInt || y.Sort != SInt {
		// floats etc.
		if op == token.LSS || op == token.LEQ || op == token.GTR || op == token.GEQ {
			return Var(ex.G.name("fcmp"), SBool)
		}
		return ex.G.Fresh(resT, "fop")
	}
	switch op {
	case token.LSS:
		return Lt(x, y)
	case token.LEQ:
		return Le(x, y)
	case token.GTR:
		return Gt(x, y)
	case token.GEQ:
		return Ge(x, y)
	}
	bits, signed := intBits(resT)
	wrap1 := func(t *Term) *Term {
		if signed {
			return WrapS1(t, bits)
		}
		return WrapU1(t, bits)
	}
	switch op {
	case token.ADD:
		return wrap1(Add(x, y))
	case token.SUB:
		return wrap1(Sub(x, y))
	case token.MUL:
		if signed {
			return WrapSFull(Mul(x, y), bits)
		}
		return WrapUFull(Mul(x, y), bits)
	case token.QUO, token.REM:
		ex.safety(st, "div", Neq(y, IntC(0)), ins, ins.(*ssa.BinOp).Y)
		if !signed {
			if op == token.QUO {
				return Div(x, y)
			}
			return Mod(x, y)
		}
		// Go truncates toward zero; SMT div is euclidean
		ax := Ite(Lt(x, IntC(0)), Sub(IntC(0), x), x)
		ay := Ite(Lt(y, IntC(0)), Sub(IntC(0), y), y)
		q := Div(ax, ay)
		neg := Neq(Lt(x, IntC(0)), Lt(y, IntC(0)))
		sq := Ite(neg, Sub(IntC(0), q), q)
		if op == token.QUO {
			return WrapS1(sq, bits)
		}
		return Sub(x, Mul(sq, y))
	case token.SHL, token.SHR:
		if y.IsConstInt() && y.I.IsInt64() && y.I.Int64() >= 0 && y.I.Int64() < 128 {
			p := IntB(Pow2(int(y.I.Int64())))
			if op == token.SHL {
				if signed {
					return WrapSFull(Mul(x, p), bits)
				}
				return WrapUFull(Mul(x, p), bits)
			}
			return Div(x, p) // floor division == arithmetic shift for negatives too
		}
	case token.AND:
		if y.IsConstInt() {
			// x & (2^k - 1)
			m := new(bigInt).Add(y.I, bigOne)
			if m.BitLen() > 0 && new(bigInt).And(m, y.I).Sign() == 0 && !signed {
				return Mod(x, IntB(m))
			}
		}
	}
	ex.Unsupported["binop "+op.String()]++
	ex.note(st, "unsupported-op "+op.String())
	return ex.G.Fresh(resT, "bitop")
}

func (ex *Exec) convert(st *State, fr *Frame, ins *ssa.Convert, x Value, from, to types.Type) Value {
	switch {
	case isInteger(from) && isInteger(to):
		t := ex.asTerm(x)
		fb, fs := intBits(from)
		tb, ts := intBits(to)
		if fs == ts && tb >= fb {
			return t
		}
		if !fs && ts && tb > fb {
			return t
		}
		if ts {
			return WrapSFull(t, tb)
		}
		if fs && !ts && tb >= fb {
			return Ite(Lt(t, IntC(0)), Add(t, IntB(Pow2(tb))), t)
		}
		return WrapUFull(t, tb)
	case isString(from) && isByteSlice(to):
		t := ex.asTerm(x)
		obj := ex.G.NewObject(to, "conv")
		st.Heap[obj] = t
		l := ex.G.BLen(t)
		return &SliceV{Nil: TFalse, Obj: obj, Off: IntC(0), Len: l, Cap: l, Elem: types.Typ[types.Uint8]}
	case isByteSlice(from) && isString(to):
		s := x.(*SliceV)
		return ex.sliceBytes(st, s)
	case isString(from) && isString(to):
		return x
	case isInteger(from) && isString(to):
		return App("runestr", SB, ex.asTerm(x))
	case isFloat(from) || isFloat(to):
		ex.Unsupported["float conversion"]++
		return ex.G.Fresh(to, "fconv")
	}
	if _, ok := from.Underlying().(*types.Pointer); ok {
		return x
	}
	if _, ok := to.Underlying().(*types.Basic); ok {
		return ex.G.Fresh(to, "conv")
	}
	return x
}

// sliceBytes returns the content (sort B) of a byte slice.
func (ex *Exec) sliceBytes(st *State, s *SliceV) *Term {
	if s.Obj == nil || s.Len.IsConstInt() && s.Len.I.Sign() == 0 {
		return ex.G.StrConst("")
	}
	root := ex.objVal(st, s.Obj)
	back := ex.readPath(st, root, s.Path, s.Obj.Typ)
	if av, isArr := back.(*ArrV); isArr && isByte(av.Elem) && s.Off.IsConstInt() && s.Len.IsConstInt() && s.Off.I.IsInt64() && s.Len.I.IsInt64() {
		lo, n := int(s.Off.I.Int64()), int(s.Len.I.Int64())
		if lo >= 0 && n >= 0 && lo+n <= len(av.E) {
			return ex.bytesOfCells(av.E[lo : lo+n])
		}
	}
	bt, ok := back.(*Term)
	if !ok || bt.Sort != SB {
		return ex.G.FreshBytes("content", -1)
	}
	return ex.G.BSub(bt, s.Off, s.Len)
}

func (ex *Exec) typeAssert(st *State, fr *Frame, v *ssa.TypeAssert) {
	x := ex.eval(fr, v.X)
	iv, _ := x.(*IfaceV)
	var okT *Term
	var val Value
	if iv != nil && iv.Dyn != nil {
		if types.IsInterface(v.AssertedType) {
			okT = BoolC(types.Implements(iv.Dyn, v.AssertedType.Underlying().(*types.Interface)))
			val = iv
		} else {
			okT = BoolC(types.Identical(iv.Dyn, v.AssertedType))
			if okT.IsTrue() {
				val = iv.Val
			} else {
				val = ex.G.Zero(v.AssertedType)
			}
		}
		okT = And(okT, Neq(iv.ID, IntC(0)))
	} else {
		okT = Var(ex.G.name("assertok"), SBool)
		if iv != nil {
			ex.G.facts[okT.Name] = []*Term{Implies(okT, Neq(iv.ID, IntC(0)))}
		}
		if types.IsInterface(v.AssertedType) && iv != nil {
			val = iv
		} else {
			val = ex.G.Fresh(v.AssertedType, "asserted")
		}
	}
	if v.CommaOk {
		// on failure the value is the zero value
		ex.set(fr, v, &TupleV{E: []Value{val, okT}})
		return
	}
	ex.safety(st, "assert", okT, v, v.X)
	ex.set(fr, v, val)
}

func (ex *Exec) makeSlice(st *State, fr *Frame, v *ssa.MakeSlice) {
	ln := ex.asTerm(ex.eval(fr, v.Len))
	cp := ex.asTerm(ex.eval(fr, v.Cap))
	ex.safety(st, "makeslice", And(Ge(ln, IntC(0)), Le(ln, cp)), v, v.Len)
	et := v.Type().Underlying().(*types.Slice).Elem()
	obj := ex.G.NewObject(v.Type(), "make")
	obj.Site = v
	if isByte(et) {
		st.Heap[obj] = ex.G.BZero(cp)
	} else if cp.IsConstInt() && cp.I.IsInt64() && cp.I.Int64() <= 16 {
		a := &ArrV{Elem: et}
		for i := int64(0); i < cp.I.Int64(); i++ {
			a.E = append(a.E, ex.G.Zero(et))
		}
		st.Heap[obj] = a
	} else {
		ex.G.n++
		st.Heap[obj] = &SymSeq{ID: ex.G.n, Elem: et, Name: "made"}
	}
	ex.set(fr, v, &SliceV{Nil: TFalse, Obj: obj, Off: IntC(0), Len: ln, Cap: cp, Elem: et})
}

func (ex *Exec) sliceOp(st *State, fr *Frame, v *ssa.Slice) {
	x := ex.eval(fr, v.X)
	var lo, hi, mx *Term
	if v.Low != nil {
		lo = ex.asTerm(ex.eval(fr, v.Low))
	}
	if v.High != nil {
		hi = ex.asTerm(ex.eval(fr, v.High))
	}
	if v.Max != nil {
		mx = ex.asTerm(ex.eval(fr, v.Max))
	}
	switch s := x.(type) {
	case *SliceV:
		if lo == nil {
			lo = IntC(0)
		}
		if hi == nil {
			hi = s.Len
		}
		capT := s.Cap
		if mx != nil {
			ex.safety(st, "slice", And(Le(hi, mx), Le(mx, s.Cap)), v, v.X)
			capT = mx
		}
		ex.safety(st, "slice", And(Ge(lo, IntC(0)), Le(lo, hi), Le(hi, s.Cap)), v, v.X)
		ex.set(fr, v, &SliceV{Nil: s.Nil, Obj: s.Obj, Path: s.Path, Off: Add(s.Off, lo), Len: Sub(hi, lo), Cap: Sub(capT, lo), Elem: s.Elem})
	case *Term: // string
		l := ex.G.BLen(s)
		if lo == nil {
			lo = IntC(0)
		}
		if hi == nil {
			hi = l
		}
		ex.safety(st, "slice", And(Ge(lo, IntC(0)), Le(lo, hi), Le(hi, l)), v, v.X)
		ex.set(fr, v, ex.G.BSub(s, lo, Sub(hi, lo)))
	case *PtrV: // pointer to array
		ex.safety(st, "nil", Not(s.Nil), v, v.X)
		at := v.X.Type().Underlying().(*types.Pointer).Elem().Underlying().(*types.Array)
		n := IntC(at.Len())
		if lo == nil {
			lo = IntC(0)
		}
		if hi == nil {
			hi = n
		}
		capT := n
		if mx != nil {
			capT = mx
		}
		ex.safety(st, "slice", And(Ge(lo, IntC(0)), Le(lo, hi), Le(hi, n)), v, v.X)
		base := IntC(0)
		path := s.Path
		// a view created by SliceToArrayPointer: re-slice the underlying backing
		if len(path) > 0 && path[len(path)-1].SubN > 0 {
			base = path[len(path)-1].Idx
			path = path[:len(path)-1]
		}
		ex.set(fr, v, &SliceV{Nil: TFalse, Obj: s.Obj, Path: path, Off: Add(base, lo), Len: Sub(hi, lo), Cap: Sub(capT, lo), Elem: at.Elem()})
	default:
		ex.Unsupported["slice of unknown"]++
		ex.set(fr, v, ex.G.Fresh(v.Type(), "slice"))
	}
}

func (ex *Exec) mapState(st *State, m *MapV) *MapState {
	if m.Obj == nil {
		return nil
	}
	v := ex.objVal(st, m.Obj)
	ms, _ := v.(*MapState)
	return ms
}

func (ex *Exec) keyTerm(k Value) *Term {
	switch x := k.(type) {
	case *Term:
		return x
	}
	return Var(ex.G.name("key"), "T_key")
}

func shapeSelect(shape Value, k *Term) Value {
	switch s := shape.(type) {
	case *Term:
		return Select(s, k)
	case *StructV:
		n := &StructV{T: s.T}
		for _, f := range s.F {
			n.F = append(n.F, shapeSelect(f, k))
		}
		return n
	}
	return nil
}

func shapeStore(shape Value, k *Term, v Value) Value {
	switch s := shape.(type) {
	case *Term:
		if vt, ok := v.(*Term); ok && arrValSort(s.Sort) == vt.Sort {
			return Store(s, k, vt)
		}
		return s
	case *StructV:
		vs, ok := v.(*StructV)
		if !ok {
			return s
		}
		n := &StructV{T: s.T}
		for i, f := range s.F {
			n.F = append(n.F, shapeStore(f, k, vs.F[i]))
		}
		return n
	}
	return nil
}

func hasNilLeaf(shape Value) bool {
	switch s := shape.(type) {
	case nil:
		return true
	case *StructV:
		for _, f := range s.F {
			if hasNilLeaf(f) {
				return true
			}
		}
	}
	return false
}

// freshStored creates an unknown value read back from a container: pointers and (non-error) interfaces
// inside it are non-nil. The matching obligation "no nil is stored" is emitted at every MapUpdate.
func (ex *Exec) freshStored(t types.Type, hint string) Value {
	save := ex.G.nonNil
	ex.G.nonNil = true
	defer func() { ex.G.nonNil = save }()
	return ex.G.Fresh(t, hint)
}

func (ex *Exec) nonNilLeaves(v Value) *Term {
	switch x := v.(type) {
	case *PtrV:
		return Not(x.Nil)
	case *IfaceV:
		return Neq(x.ID, IntC(0))
	case *StructV:
		c := TTrue
		for i, f := range x.F {
			if _, isErr := f.(*IfaceV); isErr && isErrorType(x.T.Field(i).Type()) {
				continue
			}
			c = And(c, ex.nonNilLeaves(f))
		}
		return c
	}
	return TTrue
}

func (ex *Exec) mapUpdate(st *State, fr *Frame, v *ssa.MapUpdate) {
	m, ok := ex.eval(fr, v.Map).(*MapV)
	if !ok {
		return
	}
	ex.safety(st, "nilmap", Not(m.Nil), v, v.Map)
	if mt, ok := v.Map.Type().Underlying().(*types.Map); ok && sortOf(mt.Elem()) == "" {
		ex.safety(st, "container-nonnil", ex.nonNilLeaves(ex.eval(fr, v.Value)), v, v.Value)
	}
	ms := ex.mapState(st, m)
	if ms == nil {
		return
	}
	k := ex.keyTerm(ex.eval(fr, v.Key))
	val := ex.eval(fr, v.Value)
	if k.Sort != arrKeySort(ms.Has.Sort) {
		return
	}
	had := Select(ms.Has, k)
	n := &MapState{Has: Store(ms.Has, k, TTrue), Len: Ite(had, ms.Len, Add(ms.Len, IntC(1)))}
	if ms.Vals != nil && !hasNilLeaf(ms.Vals) {
		n.Vals = shapeStore(ms.Vals, k, val)
	} else {
		n.Vals = ms.Vals
	}
	st.Heap[m.Obj] = n
	ex.event(st, &Event{Callee: "map.update", Args: []Value{m, ex.eval(fr, v.Key), val}, Instr: v, Fn: fr.Fn, Kind: "mapupdate"})
}

func (ex *Exec) lookup(st *State, fr *Frame, v *ssa.Lookup) {
	x := ex.eval(fr, v.X)
	if s, ok := x.(*Term); ok && s.Sort == SB { // string index
		idx := ex.asTerm(ex.eval(fr, v.Index))
		ex.safety(st, "index", And(Ge(idx, IntC(0)), Lt(idx, ex.G.BLen(s))), v, v.X)
		ex.set(fr, v, ex.G.BAt(s, idx))
		return
	}
	m, ok := x.(*MapV)
	var et types.Type
	if v.CommaOk {
		et = v.Type().(*types.Tuple).At(0).Type()
	} else {
		et = v.Type()
	}
	if !ok {
		ex.set(fr, v, ex.G.Fresh(v.Type(), "lookup"))
		return
	}
	k := ex.keyTerm(ex.eval(fr, v.Index))
	ms := ex.mapState(st, m)
	var has *Term
	var val Value
	if ms == nil || k.Sort != arrKeySort(ms.Has.Sort) {
		has = And(Not(m.Nil), Var(ex.G.name("has"), SBool))
		val = ex.G.Fresh(et, "mapval")
	} else {
		has = And(Not(m.Nil), Select(ms.Has, k))
		if ms.Vals != nil && !hasNilLeaf(ms.Vals) {
			sel := shapeSelect(ms.Vals, k)
			val = ex.iteVal(has, sel, ex.G.Zero(et), et)
		} else {
			val = ex.iteVal(has, ex.freshStored(et, "mapval"), ex.G.Zero(et), et)
		}
	}
	if v.CommaOk {
		ex.set(fr, v, &TupleV{E: []Value{val, has}})
	} else {
		ex.set(fr, v, val)
	}
}

func (ex *Exec) iteVal(c *Term, a, b Value, t types.Type) Value {
	if c.IsTrue() {
		return a
	}
	if c.IsFalse() {
		return b
	}
	switch x := a.(type) {
	case *Term:
		if y, ok := b.(*Term); ok && x.Sort == y.Sort {
			return Ite(c, x, y)
		}
	case *StructV:
		if y, ok := b.(*StructV); ok {
			n := &StructV{T: x.T}
			for i := range x.F {
				n.F = append(n.F, ex.iteVal(c, x.F[i], y.F[i], x.T.Field(i).Type()))
			}
			return n
		}
	case *ArrV:
		if y, ok := b.(*ArrV); ok && len(x.E) == len(y.E) {
			n := &ArrV{Elem: x.Elem}
			for i := range x.E {
				n.E = append(n.E, ex.iteVal(c, x.E[i], y.E[i], x.Elem))
			}
			return n
		}
	}
	return ex.G.Fresh(t, "ite")
}

func (ex *Exec) next(st *State, fr *Frame, v *ssa.Next) {
	it := ex.eval(fr, v.Iter)
	tup := v.Type().(*types.Tuple)
	okT := Var(ex.G.name("nextok"), SBool)
	if v.IsString {
		ex.Unsupported["range over string"]++
		ex.set(fr, v, &TupleV{E: []Value{okT, ex.G.Fresh(tup.At(1).Type(), "ri"), ex.G.Fresh(tup.At(2).Type(), "rr")}})
		return
	}
	var m *MapV
	if tv, ok := it.(*TupleV); ok && len(tv.E) == 1 {
		m, _ = tv.E[0].(*MapV)
	}
	var kv, vv Value
	kt, vt := tup.At(1).Type(), tup.At(2).Type()
	if m != nil {
		// unused range variables have an invalid type in the Next tuple
		if b, ok := kt.(*types.Basic); ok && b.Kind() == types.Invalid {
			kt = m.T.Key()
		}
		if b, ok := vt.(*types.Basic); ok && b.Kind() == types.Invalid {
			vt = m.T.Elem()
		}
	}
	kv = ex.G.Fresh(kt, "rk")
	vv = ex.freshStored(vt, "rv")
	if m != nil {
		if ms := ex.mapState(st, m); ms != nil && ms.DagOf != nil {
			if k, ok := kv.(*Term); ok {
				// keys of GetLeaves/GetRoots/GetVertices are ids of vertices present in the graph
				ex.G.facts[okT.Name] = append(ex.G.facts[okT.Name], Implies(okT, Neq(Select(ex.dagVtx(st, ms.DagOf), k), IntC(0))))
				vv = ex.dagVertexIface(st, ms.DagOf, k)
			}
		} else if ms != nil {
			if k, ok := kv.(*Term); ok && k.Sort == arrKeySort(ms.Has.Sort) {
				ex.G.facts[okT.Name] = append(ex.G.facts[okT.Name], Implies(okT, Select(ms.Has, k)))
				if ms.Vals != nil && !hasNilLeaf(ms.Vals) {
					vv = shapeSelect(ms.Vals, k)
				}
			}
		}
	}
	inLoop := false
	for _, lp := range ex.loopInfo(fr.Fn).Loops {
		if lp.Body[v.Block()] {
			inLoop = true
		}
	}
	if m != nil && (fr.Peeled[v.Block()] || !inLoop) {
		// the first Next of a range (a peeled loop, or a `for range` whose body always leaves: no loop in the CFG):
		// the map yields an element iff it is not empty
		if ms := ex.mapState(st, m); ms != nil && ms.Len != nil {
			ex.G.facts[okT.Name] = append(ex.G.facts[okT.Name], Iff(okT, Gt(ms.Len, IntC(0))))
		}
	}
	ex.set(fr, v, &TupleV{E: []Value{okT, kv, vv}})
	if m != nil {
		// "map.next": one step of a range over a map (a0 = the map; ar0 = ok, ar1 = key, ar2 = value)
		// map.next#k: a step of loop#k of the function under contract (the pattern map.next matches every loop; steps
		// of loops in inlined callees carry the callee's name and match only the bare pattern)
		nm := "map.next"
		if k, ok := ex.loopOrdinalOfHeader(fr.Fn, v.Block()); ok {
			nm = fmt.Sprintf("map.next#%d", k)
			if len(st.Frames) > 0 && fr != st.Frames[0] {
				nm += "[in " + shortName(ex.fnName(fr.Fn)) + "]"
			}
		}
		ex.event(st, &Event{Callee: nm, Args: []Value{m}, Results: []Value{okT, kv, vv}, Instr: v, Fn: fr.Fn, Kind: "mapnext"})
	}
}

func (ex *Exec) selectOp(st *State, fr *Frame, v *ssa.Select) {
	tup := v.Type().(*types.Tuple)
	mk := func(s *State, idx int) {
		f := s.Top()
		res := &TupleV{E: []Value{IntC(int64(idx)), Var(ex.G.name("recvok"), SBool)}}
		for i := 2; i < tup.Len(); i++ {
			res.E = append(res.E, ex.G.Fresh(tup.At(i).Type(), "selrecv"))
		}
		f.Locals[v] = res
		if idx >= 0 {
			sc := v.States[idx]
			kind := "select.recv"
			if sc.Dir == types.SendOnly {
				kind = "select.send"
			}
			ev := &Event{Callee: "chan." + kind, Args: []Value{ex.eval(f, sc.Chan)}, Instr: v, Fn: f.Fn, Kind: kind}
			if sc.Dir != types.SendOnly {
				// results of a receive case: ar0 = ok, ar1 = the received value
				pos := 2
				for j := 0; j < idx; j++ {
					if v.States[j].Dir != types.SendOnly {
						pos++
					}
				}
				if pos < len(res.E) {
					ev.Results = []Value{res.E[1], res.E[pos]}
				}
			}
			ex.event(s, ev)
		}
	}
	n := len(v.States)
	choices := []int{}
	for i := 0; i < n; i++ {
		choices = append(choices, i)
	}
	if !v.Blocking {
		choices = append(choices, -1)
	}
	for i, c := range choices {
		if i == len(choices)-1 {
			mk(st, c)
		} else {
			o := ex.fork(st)
			mk(o, c)
			ex.push(o)
		}
	}
}

func (ex *Exec) event(st *State, e *Event) {
	ex.seq++
	e.Seq = ex.seq
	e.PCLen = len(st.PC)
	st.Events = append(st.Events, e)
	ex.onEvent(st, e)
	ex.onEventDiscipline(st, e)
}

func calleeName(c *ssa.CallCommon) string {
	if c.IsInvoke() {
		return invokeName(c)
	}
	switch f := c.Value.(type) {
	case *ssa.Function:
		return f.String()
	case *ssa.Builtin:
		return "builtin." + f.Name()
	case *ssa.MakeClosure:
		return f.Fn.String()
	}
	return "dynamic"
}
