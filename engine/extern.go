package main

import (
	"fmt"
	"go/types"
	"os"
	"strings"

	"golang.org/x/tools/go/ssa"
)

type ExternModel struct {
	Apply  func(ex *Exec, st *State, fr *Frame, ins ssa.Instruction, args []Value) (Value, bool)
	Writes func(c *wsCtx, ws *WriteSet, call *ssa.CallCommon)
	Pure   bool
	Doc    string
}

var externModels = map[string]*ExternModel{}

// pure: no heap effects, results fresh/unconstrained unless a model says otherwise
var pureExterns = map[string]bool{}

func init() {
	for _, n := range []string{
		"fmt.Sprintf", "fmt.Errorf", "fmt.Sprint", "fmt.Sprintln", "fmt.Println", "fmt.Printf",
		"time.Now", "time.Since", "time.Sleep", "time.NewTicker", "time.After", "time.Unix",
		"(time.Time).UnixNano", "(time.Time).Unix", "(time.Time).IsZero", "(time.Time).Before", "(time.Time).After",
		"(time.Time).Equal", "(time.Time).AddDate", "(time.Time).Add", "(time.Time).UTC", "(time.Time).Sub",
		"(*time.Ticker).Stop", "(time.Duration).String",
		"errors.New", "errors.Is", "errors.Join", "errors.As",
		"bytes.Equal", "bytes.Join", "bytes.Split", "bytes.NewReader", "bytes.Compare",
		"strings.Split", "strings.SplitN", "strings.Trim", "strings.HasPrefix", "strings.Contains",
		"strconv.Atoi", "strconv.Itoa",
		"crypto/sha256.Sum256", "crypto/ed25519.Verify", "crypto/ed25519.Sign",
		"encoding/hex.EncodeToString", "encoding/hex.DecodeString", "encoding/hex.EncodedLen", "encoding/hex.DecodedLen",
		"(encoding/binary.littleEndian).AppendUint64", "(encoding/binary.littleEndian).Uint64",
		"(*sync.RWMutex).Lock", "(*sync.RWMutex).Unlock", "(*sync.RWMutex).RLock", "(*sync.RWMutex).RUnlock",
		"(*sync.Mutex).Lock", "(*sync.Mutex).Unlock",
		"(*sync/atomic.Uint64).Load", "(*sync/atomic.Int32).Load",
		"github.com/mr-tron/base58.Encode", "github.com/mr-tron/base58.Decode",
		"context.WithCancel", "context.WithCancelCause", "context.Background", "context.WithTimeout",
		"(*github.com/heimdalr/dag.DAG).GetVertex", "(*github.com/heimdalr/dag.DAG).GetLeaves", "(*github.com/heimdalr/dag.DAG).GetRoots",
		"(*github.com/heimdalr/dag.DAG).GetVertices", "(*github.com/heimdalr/dag.DAG).IsLeaf", "(*github.com/heimdalr/dag.DAG).IsRoot",
		"(*github.com/heimdalr/dag.DAG).GetSize", "(*github.com/heimdalr/dag.DAG).GetOrder",
		"(*github.com/heimdalr/dag.DAG).AncestorsWalker",
		"(*github.com/heimdalr/dag.DAG).AddVertexByID", "(*github.com/heimdalr/dag.DAG).AddEdge", "(*github.com/heimdalr/dag.DAG).DeleteVertex",
		"github.com/heimdalr/dag.NewDAG",
		"github.com/dgraph-io/badger/v4.NewEntry",
		"(*github.com/dgraph-io/badger/v4.Txn).Get", "(*github.com/dgraph-io/badger/v4.Txn).Set", "(*github.com/dgraph-io/badger/v4.Txn).SetEntry",
		"(*github.com/dgraph-io/badger/v4.Txn).Delete", "(*github.com/dgraph-io/badger/v4.Item).Value", "(*github.com/dgraph-io/badger/v4.Item).Key",
		"(*github.com/dgraph-io/badger/v4.DB).View", "(*github.com/dgraph-io/badger/v4.DB).Update",
		"(*github.com/dgraph-io/badger/v4.Txn).NewIterator", "(*github.com/dgraph-io/badger/v4.Iterator).Close", "(*github.com/dgraph-io/badger/v4.Iterator).Seek",
		"(*github.com/dgraph-io/badger/v4.Iterator).Next", "(*github.com/dgraph-io/badger/v4.Iterator).Valid", "(*github.com/dgraph-io/badger/v4.Iterator).ValidForPrefix",
		"(*github.com/dgraph-io/badger/v4.Iterator).Item", "(*github.com/dgraph-io/badger/v4.DB).Backup",
		"github.com/vmihailenco/msgpack.Marshal",
		"google.golang.org/protobuf/internal/impl.X", // placeholder
		"os.Create", "os.Stat", "(*os.File).Close",
		"github.com/dgraph-io/badger/v4.DefaultOptions",
	} {
		pureExterns[n] = true
	}
}

func (ex *Exec) isPureCallee(name string) bool {
	if pureExterns[name] {
		return true
	}
	if ex.Specs != nil && ex.Specs.Pure[name] {
		return true
	}
	if k := ex.ifaceKind(name); k == "pure" || k == "global" || k == "readonly" {
		return true
	}
	// protobuf getters / generated code helpers never write to their receiver
	if strings.Contains(name, "protobufcompiled.") && strings.Contains(name, ").Get") {
		return true
	}
	return false
}

// ModelsUsed records which families of dependency models a run actually exercised (reported as assumptions).
var ModelsUsed = map[string]bool{}

func noteModel(name string) {
	switch {
	case strings.Contains(name, "dgraph-io/badger"):
		ModelsUsed["A3 badger ghost model: per DB a Has/Val map; View/Update run the closure, Update commits iff the closure returned nil and no conflict; iterators visit present entries, no completeness"] = true
	case strings.Contains(name, "heimdalr/dag"):
		ModelsUsed["A2 heimdalr/dag ghost model: vertex map and edge relation; AddVertexByID/AddEdge/DeleteVertex/GetVertex/GetLeaves/GetRoots/IsLeaf/IsRoot per their documentation; AncestorsWalker delivers ids of present vertices through a channel whose producer holds the graph read lock until it is drained; no completeness of a walk"] = true
	case strings.Contains(name, "allegro/bigcache"):
		ModelsUsed["A6 bigcache behaves as a map: Get finds what Set stored, Set succeeds, Delete removes, no eviction inside one operation"] = true
	case strings.HasPrefix(name, "os.") || strings.HasPrefix(name, "(*os.File)"):
		ModelsUsed["A15 file system ghost model: one content per path; WriteFile replaces, ReadFile returns it, OpenFile/Write keep the old tail unless O_TRUNC; every call may fail and then changes nothing"] = true
	case strings.HasPrefix(name, "crypto/"):
		ModelsUsed["A5 sha256 and ed25519 are uninterpreted functions (no cryptographic strength is modelled); ed25519.Verify panics unless the key has 32 bytes"] = true
	case strings.HasPrefix(name, "time."):
		ModelsUsed["time: Now is arbitrary; Unix(0,n).UnixNano() == n for every int64 n; other time functions uninterpreted"] = true
	}
}

func (ex *Exec) externModel(name string) *ExternModel {
	if m, ok := externModels[name]; ok {
		noteModel(name)
		return m
	}
	if strings.HasPrefix(name, "slices.SortStableFunc[") {
		return &ExternModel{Apply: sortModel}
	}
	return nil
}

// interface-method kinds: "pure" (function of receiver and args), "global" (function of args only),
// "readonly" (fresh results, no writes), "" (may write through pointer arguments).
var ifaceKinds = map[string]string{}

func init() {
	for _, m := range []string{"Info", "Error", "Warn", "Debug", "Fatal"} {
		ifaceKinds["(logger.Logger)."+m] = "readonly"
	}
	for _, itf := range []string{"accountant.signatureVerifier", "gossip.signatureVerifier", "notaryserver.verifier", "transaction.Verifier", "webhooksserver.verifier", "walletapi.verifier"} {
		ifaceKinds["("+itf+").Verify"] = "global"
	}
	for _, itf := range []string{"accountant.Signer", "transaction.Signer"} {
		ifaceKinds["("+itf+").Sign"] = "pure"
		ifaceKinds["("+itf+").Address"] = "pure"
	}
	ifaceKinds["(context.Context).Done"] = "readonly"
	ifaceKinds["(context.Context).Err"] = "readonly"
	ifaceKinds["(error).Error"] = "pure"
}

func (ex *Exec) ifaceKind(name string) string {
	if ex.Specs != nil {
		if k, ok := ex.Specs.Iface[name]; ok {
			return k
		}
	}
	return ifaceKinds[name]
}

func reg(name string, f func(ex *Exec, st *State, fr *Frame, ins ssa.Instruction, args []Value) (Value, bool)) {
	externModels[name] = &ExternModel{Apply: f}
}

func (ex *Exec) freshErr(hint string, nonNil bool) *IfaceV {
	if nonNil {
		// a freshly made error value: non-nil and different from every other error value
		ex.ifaceN++
		return &IfaceV{ID: IntC(30000000 + ex.ifaceN), Lib: true}
	}
	id := ex.G.FreshInt(hint, types.Typ[types.Int64])
	if nonNil {
		ex.G.facts[id.Name] = append(ex.G.facts[id.Name], Gt(id, IntC(0)))
	} else {
		ex.G.facts[id.Name] = append(ex.G.facts[id.Name], Ge(id, IntC(0)))
	}
	return &IfaceV{ID: id, Lib: true}
}

// errIs expands errors.Is over joined errors.
func (ex *Exec) errIs(e *IfaceV, target *IfaceV, depth int) *Term {
	if e.Lib && len(e.JoinOf) == 0 && target.ID.IsConstInt() && ex.repoSentinel[target.ID.I.Int64()] {
		// an error produced by an external library is not (and does not wrap) a sentinel defined in this repository
		return TFalse
	}
	c := And(Neq(e.ID, IntC(0)), Eq(e.ID, target.ID))
	if depth > 6 {
		return c
	}
	if len(e.JoinOf) > 0 {
		// errors.Join / fmt.Errorf return a new error value: it is none of the sentinels itself
		if target.ID.IsConstInt() {
			c = TFalse
		}
		alts := []*Term{c}
		for _, j := range e.JoinOf {
			alts = append(alts, ex.errIs(j, target, depth+1))
		}
		return Or(alts...)
	}
	if e.ID.IsConstInt() {
		return c
	}
	// unknown provenance: may wrap the target
	return Or(c, And(Neq(e.ID, IntC(0)), App("errwraps", SBool, e.ID, target.ID)))
}

func (ex *Exec) sliceElems(st *State, v Value) ([]Value, bool) {
	s, ok := v.(*SliceV)
	if !ok {
		return nil, false
	}
	if !s.Len.IsConstInt() {
		return nil, false
	}
	n := int(s.Len.I.Int64())
	var out []Value
	for i := 0; i < n; i++ {
		out = append(out, ex.sliceElem(st, s, IntC(int64(i))))
	}
	return out, true
}

func (ex *Exec) newByteSlice(st *State, content *Term, name string) *SliceV {
	obj := ex.G.NewObject(types.NewSlice(types.Typ[types.Uint8]), name)
	st.Heap[obj] = content
	l := ex.G.BLen(content)
	return &SliceV{Nil: TFalse, Obj: obj, Off: IntC(0), Len: l, Cap: l, Elem: types.Typ[types.Uint8]}
}

func init() {
	reg("errors.New", func(ex *Exec, st *State, fr *Frame, ins ssa.Instruction, args []Value) (Value, bool) {
		return ex.freshErr("errnew", true), true
	})
	reg("fmt.Errorf", func(ex *Exec, st *State, fr *Frame, ins ssa.Instruction, args []Value) (Value, bool) {
		e := ex.freshErr("errorf", true)
		if len(args) > 1 {
			if els, ok := ex.sliceElems(st, args[1]); ok {
				for _, a := range els {
					if iv, ok := a.(*IfaceV); ok && iv.Dyn == nil {
						e.JoinOf = append(e.JoinOf, iv)
					} else if iv, ok := a.(*IfaceV); ok && iv.Dyn != nil {
						if inner, ok := iv.Val.(*IfaceV); ok {
							e.JoinOf = append(e.JoinOf, inner)
						}
					}
				}
			}
		}
		return e, true
	})
	reg("errors.Join", func(ex *Exec, st *State, fr *Frame, ins ssa.Instruction, args []Value) (Value, bool) {
		els, ok := ex.sliceElems(st, args[0])
		if !ok {
			return ex.freshErr("errjoin", false), true
		}
		e := ex.freshErr("errjoin", false)
		allNil := TTrue
		for _, a := range els {
			if iv, ok := a.(*IfaceV); ok {
				e.JoinOf = append(e.JoinOf, iv)
				allNil = And(allNil, Eq(iv.ID, IntC(0)))
			}
		}
		ex.G.facts[e.ID.Name] = append(ex.G.facts[e.ID.Name], Iff(Eq(e.ID, IntC(0)), allNil))
		return e, true
	})
	reg("errors.Is", func(ex *Exec, st *State, fr *Frame, ins ssa.Instruction, args []Value) (Value, bool) {
		e, ok1 := args[0].(*IfaceV)
		t, ok2 := args[1].(*IfaceV)
		if !ok1 || !ok2 {
			return Var(ex.G.name("errorsis"), SBool), true
		}
		r := ex.errIs(e, t, 0)
		if traceCalls && !r.IsConstBool() {
			fmt.Fprintf(os.Stderr, "errorsIs symbolic: %s\n", r)
		}
		return r, true
	})
	reg("bytes.Equal", func(ex *Exec, st *State, fr *Frame, ins ssa.Instruction, args []Value) (Value, bool) {
		a, ok1 := args[0].(*SliceV)
		b, ok2 := args[1].(*SliceV)
		if !ok1 || !ok2 {
			return Var(ex.G.name("byteseq"), SBool), true
		}
		return Eq(ex.sliceBytes(st, a), ex.sliceBytes(st, b)), true
	})
	reg("bytes.Join", func(ex *Exec, st *State, fr *Frame, ins ssa.Instruction, args []Value) (Value, bool) {
		parts, ok := ex.sliceElems(st, args[0])
		sep, ok2 := args[1].(*SliceV)
		if !ok || !ok2 {
			return nil, false
		}
		sepC := ex.sliceBytes(st, sep)
		var r *Term
		for i, p := range parts {
			ps, ok := p.(*SliceV)
			if !ok {
				return nil, false
			}
			c := ex.sliceBytes(st, ps)
			if i == 0 {
				r = c
			} else {
				r = ex.G.BCat(ex.G.BCat(r, sepC), c)
			}
		}
		if r == nil {
			r = ex.G.StrConst("")
		}
		return ex.newByteSlice(st, r, "join"), true
	})
	reg("(encoding/binary.littleEndian).AppendUint64", func(ex *Exec, st *State, fr *Frame, ins ssa.Instruction, args []Value) (Value, bool) {
		b, ok := args[1].(*SliceV)
		v, ok2 := args[2].(*Term)
		if !ok || !ok2 {
			return nil, false
		}
		return ex.newByteSlice(st, ex.G.BCat(ex.sliceBytes(st, b), App("le64", SB, v)), "appendu64"), true
	})
	reg("(encoding/binary.littleEndian).PutUint64", func(ex *Exec, st *State, fr *Frame, ins ssa.Instruction, args []Value) (Value, bool) {
		b, ok := args[1].(*SliceV)
		v, ok2 := args[2].(*Term)
		if !ok || !ok2 {
			return nil, false
		}
		ex.safety(st, "extern-pre", Ge(b.Len, IntC(8)), ins, ins.(*ssa.Call).Call.Args[1])
		if b.Obj != nil {
			p := &PtrV{Nil: TFalse, Obj: b.Obj, Path: append(append([]PathEl(nil), b.Path...), PathEl{Idx: b.Off, SubN: 8})}
			ex.store(st, p, App("le64", SB, v))
		}
		return &TupleV{}, true
	})
	reg("crypto/sha256.Sum256", func(ex *Exec, st *State, fr *Frame, ins ssa.Instruction, args []Value) (Value, bool) {
		b, ok := args[0].(*SliceV)
		if !ok {
			return nil, false
		}
		h := App("sha256", SB, ex.sliceBytes(st, b))
		ex.G.lens[h.Key()] = IntC(32)
		return h, true
	})
	reg("crypto/ed25519.Verify", func(ex *Exec, st *State, fr *Frame, ins ssa.Instruction, args []Value) (Value, bool) {
		pub, ok := args[0].(*SliceV)
		msg, ok2 := args[1].(*SliceV)
		sig, ok3 := args[2].(*SliceV)
		if !ok || !ok2 || !ok3 {
			return nil, false
		}
		// A8: ed25519.Verify panics unless len(publicKey) == 32
		ex.safety(st, "extern-pre", Eq(pub.Len, IntC(32)), ins, ins.(*ssa.Call).Call.Args[0])
		return App("ed25519_verify", SBool, ex.sliceBytes(st, pub), ex.sliceBytes(st, msg), ex.sliceBytes(st, sig)), true
	})
	reg("time.Now", func(ex *Exec, st *State, fr *Frame, ins ssa.Instruction, args []Value) (Value, bool) {
		return Var(ex.G.name("now"), "T_time_Time"), true
	})
	reg("time.Unix", func(ex *Exec, st *State, fr *Frame, ins ssa.Instruction, args []Value) (Value, bool) {
		s, ok := args[0].(*Term)
		n, ok2 := args[1].(*Term)
		if !ok || !ok2 {
			return nil, false
		}
		return App("time_unix", "T_time_Time", s, n), true
	})
	reg("(time.Time).UnixNano", func(ex *Exec, st *State, fr *Frame, ins ssa.Instruction, args []Value) (Value, bool) {
		t, ok := args[0].(*Term)
		if !ok {
			return nil, false
		}
		return App("time_unixnano", SInt, t), true
	})
	reg("(time.Time).IsZero", func(ex *Exec, st *State, fr *Frame, ins ssa.Instruction, args []Value) (Value, bool) {
		t, ok := args[0].(*Term)
		if !ok {
			return nil, false
		}
		return App("time_iszero", SBool, t), true
	})
	for _, m := range []string{"Before", "After", "Equal"} {
		m := m
		reg("(time.Time)."+m, func(ex *Exec, st *State, fr *Frame, ins ssa.Instruction, args []Value) (Value, bool) {
			a, ok := args[0].(*Term)
			b, ok2 := args[1].(*Term)
			if !ok || !ok2 {
				return nil, false
			}
			if a == b {
				// a time is neither before nor after itself
				return BoolC(m == "Equal"), true
			}
			return App("time_"+strings.ToLower(m), SBool, a, b), true
		})
	}
	for _, n := range []string{"(*sync.RWMutex).Lock", "(*sync.RWMutex).Unlock", "(*sync.RWMutex).RLock", "(*sync.RWMutex).RUnlock", "(*sync.Mutex).Lock", "(*sync.Mutex).Unlock"} {
		n := n
		reg(n, func(ex *Exec, st *State, fr *Frame, ins ssa.Instruction, args []Value) (Value, bool) {
			key := "?"
			if p, ok := args[0].(*PtrV); ok && p.Obj != nil {
				key = lockKey(p)
			}
			switch {
			case strings.HasSuffix(n, ".Lock"):
				st.Held["w:"+key]++
			case strings.HasSuffix(n, ".RLock"):
				st.Held["r:"+key]++
			case strings.HasSuffix(n, ".Unlock"):
				st.Held["w:"+key]--
			case strings.HasSuffix(n, ".RUnlock"):
				st.Held["r:"+key]--
			}
			return &TupleV{}, true
		})
	}
	reg("(*sync/atomic.Uint64).Load", func(ex *Exec, st *State, fr *Frame, ins ssa.Instruction, args []Value) (Value, bool) {
		return ex.G.FreshInt("atomicload", types.Typ[types.Uint64]), true
	})
	reg("(*sync/atomic.Uint64).Store", func(ex *Exec, st *State, fr *Frame, ins ssa.Instruction, args []Value) (Value, bool) {
		return &TupleV{}, true
	})
	reg("(*sync/atomic.Int32).Load", func(ex *Exec, st *State, fr *Frame, ins ssa.Instruction, args []Value) (Value, bool) {
		return ex.G.FreshInt("atomicload", types.Typ[types.Int32]), true
	})
	reg("(*sync/atomic.Int32).Add", func(ex *Exec, st *State, fr *Frame, ins ssa.Instruction, args []Value) (Value, bool) {
		return ex.G.FreshInt("atomicadd", types.Typ[types.Int32]), true
	})
	// fmt.Sprintf with a constant format that consists of literal text and %s verbs only, applied to strings: the
	// concatenation. Every other format keeps the default (an arbitrary string).
	reg("fmt.Sprintf", func(ex *Exec, st *State, fr *Frame, ins ssa.Instruction, args []Value) (Value, bool) {
		if len(args) != 2 {
			return nil, false
		}
		ft, ok := args[0].(*Term)
		if !ok || ft.Op != "app" || len(ft.Args) != 0 {
			return nil, false
		}
		format, isLit := ex.G.strLits[ft.Name]
		if !isLit {
			return nil, false
		}
		parts, ok := ex.sliceElems(st, args[1])
		if !ok {
			return nil, false
		}
		pieces := strings.Split(format, "%s")
		if len(pieces) != len(parts)+1 {
			return nil, false
		}
		for _, pc := range pieces {
			if strings.Contains(pc, "%") {
				return nil, false
			}
		}
		r := ex.G.StrConst(pieces[0])
		for i, a := range parts {
			iv, ok := a.(*IfaceV)
			if !ok {
				return nil, false
			}
			t, ok := iv.Val.(*Term)
			if !ok || t.Sort != SB {
				return nil, false
			}
			if _, isStr := iv.Dyn.Underlying().(*types.Basic); !isStr {
				return nil, false
			}
			r = ex.G.BCat(r, t)
			if pieces[i+1] != "" {
				r = ex.G.BCat(r, ex.G.StrConst(pieces[i+1]))
			}
		}
		ModelsUsed["A17 fmt.Sprintf with a constant format of literal text and %s verbs over strings is the concatenation; hex.EncodeToString is a function of the bytes"] = true
		return r, true
	})
	// hex.EncodeToString is an (uninterpreted, deterministic) function of the bytes, twice as long
	reg("encoding/hex.EncodeToString", func(ex *Exec, st *State, fr *Frame, ins ssa.Instruction, args []Value) (Value, bool) {
		sv, ok := args[0].(*SliceV)
		if !ok {
			return nil, false
		}
		b := ex.sliceBytes(st, sv)
		r := App("hexenc", SB, b)
		ex.G.lens[r.Key()] = Mul(IntC(2), ex.G.BLen(b))
		return r, true
	})
	reg("encoding/hex.EncodedLen", func(ex *Exec, st *State, fr *Frame, ins ssa.Instruction, args []Value) (Value, bool) {
		n, ok := args[0].(*Term)
		if !ok {
			return nil, false
		}
		return Mul(IntC(2), n), true
	})
	reg("encoding/hex.DecodedLen", func(ex *Exec, st *State, fr *Frame, ins ssa.Instruction, args []Value) (Value, bool) {
		n, ok := args[0].(*Term)
		if !ok {
			return nil, false
		}
		return Div(n, IntC(2)), true
	})
}

func lockKey(p *PtrV) string {
	if p == nil || p.Obj == nil {
		return "?"
	}
	key := fmt.Sprintf("%d", p.Obj.ID)
	for _, pe := range p.Path {
		key += fmt.Sprintf(".%d", pe.Field)
	}
	return key
}

// sortModel: slices.SortStableFunc(s, cmp). A stable sort under a comparator that says "equal" for every
// pair leaves the slice as it is; for any other comparator the resulting order is unknown (a permutation).
func sortModel(ex *Exec, st *State, fr *Frame, ins ssa.Instruction, args []Value) (Value, bool) {
	s, ok := args[0].(*SliceV)
	fv, ok2 := args[1].(*FuncV)
	if !ok || !ok2 || s.Obj == nil {
		return nil, false
	}
	i := ex.G.FreshInt("sort_i", types.Typ[types.Int])
	j := ex.G.FreshInt("sort_j", types.Typ[types.Int])
	a := ex.sliceElem(st, s, i)
	b := ex.sliceElem(st, s, j)
	results, complete := ex.evalClosure(st, fv, []Value{a, b})
	allEqual := complete && len(results) > 0
	for _, r := range results {
		t, ok := r.(*Term)
		if !ok || !t.IsConstInt() || t.I.Sign() != 0 {
			allEqual = false
		}
	}
	if allEqual {
		return &TupleV{}, true
	}
	// unknown order: the elements are a permutation of the old ones; positions are no longer known
	root := ex.objVal(st, s.Obj)
	if back, ok := ex.readPath(st, root, s.Path, s.Obj.Typ).(*SymSeq); ok {
		ex.G.n++
		st.Heap[s.Obj] = ex.writePath(st, root, s.Path, &SymSeq{ID: ex.G.n, Elem: back.Elem, Name: back.Name + "_sorted"}, s.Obj.Typ)
	} else {
		ex.havocReach(st, s, map[*Object]bool{})
	}
	return &TupleV{}, true
}
