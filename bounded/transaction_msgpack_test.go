package transaction

// Bounded stand-in (C19, C17): Transaction.Encode / Decode over boundary values. BOUNDED, not a proof.

import (
	"bytes"
	"fmt"
	"math"
	"testing"
	"time"

	"github.com/bartossh/Computantis/src/spice"
)

func TestBoundedTransactionMsgpack(t *testing.T) {
	mk := func(n int, seed byte) []byte {
		b := make([]byte, n)
		for i := range b {
			b[i] = byte(i)*17 + seed
		}
		return b
	}
	lens := []int{0, 1, 31, 32, 33, 255, 256, 65535, 65536}
	ints := []uint64{0, 1, 127, 128, 255, 256, 65535, 65536, 1<<32 - 1, 1 << 32, 1<<63 - 1, 1 << 63, math.MaxUint64}
	times := []time.Time{time.Unix(0, 0), time.Unix(1<<32, 0), time.Unix(1<<34, 1), time.Unix(-1, 0), time.Unix(0, math.MaxInt64), time.Unix(0, math.MinInt64), time.Unix(1700000000, 999999999)}
	strs := []string{"", "a", "\xff\xfe\x00", string(mk(256, 1)), string(mk(65536, 2))}
	cases, mismatches := 0, 0
	first := ""
	var h [32]byte
	copy(h[:], mk(32, 9))
	check := func(x Transaction) {
		cases++
		buf, err := x.Encode()
		if err != nil {
			mismatches++
			return
		}
		d, err := Decode(buf)
		bad := ""
		switch {
		case err != nil:
			bad = err.Error()
		case d.IssuerAddress != x.IssuerAddress || d.ReceiverAddress != x.ReceiverAddress || d.Subject != x.Subject:
			bad = "strings"
		case !bytes.Equal(d.Data, x.Data) || !bytes.Equal(d.IssuerSignature, x.IssuerSignature) || !bytes.Equal(d.ReceiverSignature, x.ReceiverSignature):
			bad = "bytes"
		case d.Hash != x.Hash || d.Spice != x.Spice:
			bad = "hash/spice"
		case d.CreatedAt.UnixNano() != x.CreatedAt.UnixNano():
			bad = fmt.Sprintf("time %d != %d", d.CreatedAt.UnixNano(), x.CreatedAt.UnixNano())
		case !bytes.Equal(d.GetMessage(), x.GetMessage()):
			bad = "signed message"
		}
		if bad != "" {
			mismatches++
			if first == "" {
				first = bad
			}
		}
	}
	base := Transaction{CreatedAt: time.Unix(1700000000, 1), IssuerAddress: "i", ReceiverAddress: "r", Subject: "s", Data: []byte{1}, IssuerSignature: mk(64, 1), Hash: h, Spice: spice.Melange{Currency: 3, SupplementaryCurrency: 4}}
	for _, n := range lens {
		x := base
		x.Data, x.IssuerSignature, x.ReceiverSignature = mk(n, 1), mk(n, 2), mk(n, 3)
		check(x)
	}
	for _, s := range strs {
		x := base
		x.Subject, x.IssuerAddress, x.ReceiverAddress = s, s, s
		check(x)
	}
	for _, a := range ints {
		for _, b := range ints {
			x := base
			x.Spice = spice.Melange{Currency: a, SupplementaryCurrency: b}
			check(x)
		}
	}
	for _, tm := range times {
		x := base
		x.CreatedAt = tm
		check(x)
	}
	fmt.Printf("BOUNDED name=transaction-msgpack cases=%d mismatches=%d first=%q\n", cases, mismatches, first)
}
