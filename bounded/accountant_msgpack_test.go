package accountant

// Bounded stand-in (C19, C07): the msgpack storage codecs go through two reflection-based third-party
// libraries and are outside the verifier's subset. The real encode/decode pairs are run over the product of
// the boundary values the property lists and compared on every signed field. BOUNDED, not a proof.

import (
	"bytes"
	"math/rand"
	"os"
	"strconv"
	"fmt"
	"math"
	"testing"
	"time"

	"github.com/bartossh/Computantis/src/spice"
	"github.com/bartossh/Computantis/src/transaction"
)

func gocvBytes(n int, seed byte) []byte {
	b := make([]byte, n)
	for i := range b {
		b[i] = byte(i)*31 + seed
	}
	return b
}

var gocvLens = []int{0, 1, 31, 32, 33, 255, 256, 65535, 65536}
var gocvInts = []uint64{0, 1, 127, 128, 255, 256, 65535, 65536, 1<<32 - 1, 1 << 32, 1<<63 - 1, 1 << 63, math.MaxUint64 - 1, math.MaxUint64}
var gocvTimes = []time.Time{
	time.Unix(0, 0), time.Unix(1, 1), time.Unix(1<<32-1, 999999999), time.Unix(1<<32, 0), time.Unix(1<<34-1, 999999999), time.Unix(1<<34, 1),
	time.Unix(-1, 0), time.Unix(0, math.MaxInt64), time.Unix(0, math.MinInt64), time.Unix(1700000000, 123456789),
}
var gocvStrings = []string{"", "a", "\xff\xfe\x00bad-utf8", string(gocvBytes(255, 3)), string(gocvBytes(256, 5)), string(gocvBytes(65536, 9))}

func TestBoundedVertexMsgpack(t *testing.T) {
	cases, mismatches := 0, 0
	first := ""
	check := func(v Vertex) {
		cases++
		buf, err := v.encode()
		if err != nil {
			mismatches++
			if first == "" {
				first = fmt.Sprintf("encode error %v", err)
			}
			return
		}
		d, err := decodeVertex(buf)
		bad := ""
		switch {
		case err != nil:
			bad = fmt.Sprintf("decode error %v", err)
		case d.SignerPublicAddress != v.SignerPublicAddress:
			bad = "SignerPublicAddress"
		case d.CreatedAt.UnixNano() != v.CreatedAt.UnixNano():
			bad = fmt.Sprintf("CreatedAt %d != %d", d.CreatedAt.UnixNano(), v.CreatedAt.UnixNano())
		case !bytes.Equal(d.Signature, v.Signature):
			bad = "Signature"
		case d.Hash != v.Hash || d.LeftParentHash != v.LeftParentHash || d.RightParentHash != v.RightParentHash:
			bad = "hashes"
		case d.Weight != v.Weight:
			bad = "Weight"
		case d.Transaction.IssuerAddress != v.Transaction.IssuerAddress || d.Transaction.ReceiverAddress != v.Transaction.ReceiverAddress || d.Transaction.Subject != v.Transaction.Subject:
			bad = "trx strings"
		case !bytes.Equal(d.Transaction.Data, v.Transaction.Data) || !bytes.Equal(d.Transaction.IssuerSignature, v.Transaction.IssuerSignature) || !bytes.Equal(d.Transaction.ReceiverSignature, v.Transaction.ReceiverSignature):
			bad = "trx bytes"
		case d.Transaction.Hash != v.Transaction.Hash:
			bad = "trx hash"
		case d.Transaction.CreatedAt.UnixNano() != v.Transaction.CreatedAt.UnixNano():
			bad = "trx CreatedAt"
		case d.Transaction.Spice != v.Transaction.Spice:
			bad = "spice"
		case !bytes.Equal(d.initData(), v.initData()) || !bytes.Equal(d.Transaction.GetMessage(), v.Transaction.GetMessage()):
			bad = "signed message"
		}
		if bad != "" {
			mismatches++
			if first == "" {
				first = bad
			}
		}
	}
	var h [32]byte
	copy(h[:], gocvBytes(32, 7))
	base := Vertex{SignerPublicAddress: "signer", CreatedAt: time.Unix(1700000000, 5), Signature: gocvBytes(64, 1), Hash: h, LeftParentHash: h, RightParentHash: [32]byte{},
		Weight: 7, Transaction: transaction.Transaction{CreatedAt: time.Unix(1700000001, 6), IssuerAddress: "iss", ReceiverAddress: "rec", Subject: "sub", Data: []byte("d"), IssuerSignature: gocvBytes(64, 2), Hash: h, Spice: spice.Melange{Currency: 1, SupplementaryCurrency: 2}}}
	for _, n := range gocvLens {
		v := base
		v.Signature = gocvBytes(n, 1)
		check(v)
		v = base
		v.Transaction.Data = gocvBytes(n, 2)
		check(v)
		v = base
		v.Transaction.IssuerSignature = gocvBytes(n, 3)
		v.Transaction.ReceiverSignature = gocvBytes(n, 4)
		check(v)
	}
	for _, s := range gocvStrings {
		v := base
		v.SignerPublicAddress, v.Transaction.Subject, v.Transaction.IssuerAddress, v.Transaction.ReceiverAddress = s, s, s, s
		check(v)
	}
	for _, a := range gocvInts {
		for _, b := range gocvInts {
			v := base
			v.Weight = a
			v.Transaction.Spice = spice.Melange{Currency: b, SupplementaryCurrency: a}
			check(v)
		}
	}
	for _, ta := range gocvTimes {
		for _, tb := range gocvTimes {
			v := base
			v.CreatedAt, v.Transaction.CreatedAt = ta, tb
			check(v)
		}
	}
	if os.Getenv("VERIF_TIER") == "thorough" {
		// thorough tier: a seeded pseudo-random sweep mixing the boundary values in every field at once
		seed, _ := strconv.Atoi(os.Getenv("VERIF_SEED"))
		rng := rand.New(rand.NewSource(int64(seed) + 20260927))
		pickLen := func() int {
			if rng.Intn(4) == 0 {
				return rng.Intn(70000)
			}
			return gocvLens[rng.Intn(len(gocvLens))]
		}
		pickInt := func() uint64 {
			if rng.Intn(3) == 0 {
				return rng.Uint64()
			}
			return gocvInts[rng.Intn(len(gocvInts))]
		}
		pickTime := func() time.Time {
			if rng.Intn(3) == 0 {
				return time.Unix(0, int64(rng.Uint64()))
			}
			return gocvTimes[rng.Intn(len(gocvTimes))]
		}
		pickStr := func() string {
			if rng.Intn(3) == 0 {
				return string(gocvBytes(rng.Intn(300), byte(rng.Intn(256))))
			}
			return gocvStrings[rng.Intn(len(gocvStrings))]
		}
		for i := 0; i < 4000; i++ {
			var v Vertex
			v.SignerPublicAddress, v.CreatedAt, v.Signature, v.Weight = pickStr(), pickTime(), gocvBytes(pickLen(), byte(i)), pickInt()
			copy(v.Hash[:], gocvBytes(32, byte(rng.Intn(256))))
			copy(v.LeftParentHash[:], gocvBytes(32, byte(rng.Intn(256))))
			copy(v.RightParentHash[:], gocvBytes(32, byte(rng.Intn(256))))
			tr := &v.Transaction
			tr.CreatedAt, tr.IssuerAddress, tr.ReceiverAddress, tr.Subject = pickTime(), pickStr(), pickStr(), pickStr()
			tr.Data, tr.IssuerSignature, tr.ReceiverSignature = gocvBytes(pickLen(), 1), gocvBytes(pickLen(), 2), gocvBytes(pickLen(), 3)
			copy(tr.Hash[:], gocvBytes(32, byte(rng.Intn(256))))
			tr.Spice = spice.Melange{Currency: pickInt(), SupplementaryCurrency: pickInt()}
			check(v)
		}
	}
	fmt.Printf("BOUNDED name=vertex-msgpack cases=%d mismatches=%d first=%q\n", cases, mismatches, first)
}

func TestBoundedBalanceMsgpack(t *testing.T) {
	cases, mismatches := 0, 0
	first := ""
	for _, a := range gocvInts {
		for _, b := range gocvInts {
			for _, s := range []string{"", "addr", "\xff\x00"} {
				cases++
				bal := Balance{AccountedAt: time.Unix(1700000000, 1), WalletPublicAddress: s, Spice: spice.Melange{Currency: a, SupplementaryCurrency: b}}
				buf, err := bal.encode()
				if err != nil {
					mismatches++
					continue
				}
				d, err := decodeBalance(buf)
				if err != nil || d.Spice != bal.Spice || d.WalletPublicAddress != bal.WalletPublicAddress {
					mismatches++
					if first == "" {
						first = fmt.Sprintf("%v %v", err, d)
					}
				}
			}
		}
	}
	fmt.Printf("BOUNDED name=balance-msgpack cases=%d mismatches=%d first=%q\n", cases, mismatches, first)
}
