package cache

// Bounded stand-in (C17): the comma-joined hex list codec (set/add/remove/read) involves bytes.Split, hex and
// unbounded lists - an inductive string argument outside the verifier's reach. The real functions are run on
// every list built by at most 5 set/add/remove steps over 3 distinct hashes and compared with a multiset
// model; every produced list must also be well-formed for read (no panic in [32]byte(dec)). BOUNDED.

import (
	"os"
	"fmt"
	"sort"
	"testing"
)

func TestBoundedListCodec(t *testing.T) {
	var hs [3][32]byte
	for i := range hs {
		for j := range hs[i] {
			hs[i][j] = byte(i*50 + j)
		}
	}
	type state struct {
		raw   []byte
		model []int // multiset of hash indices
	}
	cases, mismatches := 0, 0
	first := ""
	compare := func(s state) {
		cases++
		defer func() {
			if r := recover(); r != nil {
				mismatches++
				if first == "" {
					first = fmt.Sprintf("panic: %v", r)
				}
			}
		}()
		got, err := read(s.raw)
		if err != nil && len(s.raw) != 0 {
			mismatches++
			if first == "" {
				first = fmt.Sprintf("read error %v on %q", err, s.raw)
			}
			return
		}
		var gi []int
		for _, g := range got {
			found := -1
			for i := range hs {
				if hs[i] == g {
					found = i
				}
			}
			gi = append(gi, found)
		}
		sort.Ints(gi)
		want := append([]int(nil), s.model...)
		sort.Ints(want)
		if fmt.Sprint(gi) != fmt.Sprint(want) {
			mismatches++
			if first == "" {
				first = fmt.Sprintf("list %q reads %v, model %v", s.raw, gi, want)
			}
		}
	}
	frontier := []state{{raw: nil, model: nil}}
	maxDepth := 5 // quick tier; the thorough tier enumerates every add/remove sequence up to length 7
	if os.Getenv("VERIF_TIER") == "thorough" {
		maxDepth = 7
	}
	for depth := 0; depth < maxDepth; depth++ {
		var next []state
		for _, s := range frontier {
			for i := range hs {
				// add (set when empty, as SaveAwaitedTransaction does)
				var raw []byte
				if len(s.raw) == 0 {
					raw = set(hs[i])
				} else {
					raw = add(append([]byte(nil), s.raw...), hs[i])
				}
				ns := state{raw: raw, model: append(append([]int(nil), s.model...), i)}
				compare(ns)
				next = append(next, ns)
				// remove all occurrences
				if len(s.raw) != 0 {
					raw = remove(append([]byte(nil), s.raw...), hs[i])
					var m []int
					for _, x := range s.model {
						if x != i {
							m = append(m, x)
						}
					}
					ns = state{raw: raw, model: m}
					compare(ns)
					next = append(next, ns)
				}
			}
		}
		frontier = next
	}
	fmt.Printf("BOUNDED name=cache-list-codec cases=%d mismatches=%d first=%q\n", cases, mismatches, first)
}
