// mutsweep generates first-order mutants of the named functions of one Go file (go/ast based) and prints, for each,
// a JSON line {id, kind, func, line, desc} and writes the mutated file text to <outdir>/<id>.go.
// usage: mutsweep <file.go> <outdir> [func ...]   (no func names: every function of the file)
package main

import (
	"bytes"
	"encoding/json"
	"fmt"
	"go/ast"
	"go/parser"
	"go/printer"
	"go/token"
	"os"
	"path/filepath"
	"strconv"
)

type mut struct {
	ID   string `json:"id"`
	Kind string `json:"kind"`
	Func string `json:"func"`
	Line int    `json:"line"`
	Desc string `json:"desc"`
}

var swaps = map[token.Token][]token.Token{
	token.EQL: {token.NEQ}, token.NEQ: {token.EQL},
	token.LSS: {token.LEQ, token.GEQ}, token.LEQ: {token.LSS}, token.GTR: {token.GEQ, token.LEQ}, token.GEQ: {token.GTR},
	token.LAND: {token.LOR}, token.LOR: {token.LAND},
	token.ADD: {token.SUB}, token.SUB: {token.ADD},
}

func main() {
	file, out := os.Args[1], os.Args[2]
	want := map[string]bool{}
	for _, f := range os.Args[3:] {
		want[f] = true
	}
	os.MkdirAll(out, 0o755)
	src, err := os.ReadFile(file)
	if err != nil {
		panic(err)
	}
	n := 0
	emit := func(fset *token.FileSet, f *ast.File, m mut) {
		var buf bytes.Buffer
		if err := printer.Fprint(&buf, fset, f); err != nil {
			return
		}
		n++
		m.ID = fmt.Sprintf("m%04d", n)
		os.WriteFile(filepath.Join(out, m.ID+".go"), buf.Bytes(), 0o644)
		b, _ := json.Marshal(m)
		fmt.Println(string(b))
	}
	// count mutation points first, then re-parse for each mutant (keeps the AST pristine)
	type point struct {
		kind string
		idx  int
		alt  int
	}
	var points []point
	walk := func(f *ast.File, visit func(fn string, n ast.Node, parent *[]ast.Stmt, i int) bool) {
		for _, d := range f.Decls {
			fd, ok := d.(*ast.FuncDecl)
			if !ok || fd.Body == nil {
				continue
			}
			name := fd.Name.Name
			if len(want) > 0 && !want[name] {
				continue
			}
			var rec func(list *[]ast.Stmt)
			rec = func(list *[]ast.Stmt) {
				for i := range *list {
					st := (*list)[i]
					visit(name, st, list, i)
					ast.Inspect(st, func(x ast.Node) bool {
						switch b := x.(type) {
						case *ast.BlockStmt:
							if b != nil {
								rec(&b.List)
							}
							return false
						case *ast.CaseClause:
							for _, e := range b.List {
								ast.Inspect(e, func(y ast.Node) bool { return y == nil || visit(name, y, nil, 0) })
							}
							rec(&b.Body)
							return false
						case *ast.CommClause:
							rec(&b.Body)
							return false
						case *ast.FuncLit:
							rec(&b.Body.List)
							return false
						}
						if x != nil && x != st {
							visit(name, x, nil, 0)
						}
						return true
					})
				}
			}
			rec(&fd.Body.List)
		}
	}
	fset0 := token.NewFileSet()
	f0, err := parser.ParseFile(fset0, file, src, parser.ParseComments)
	if err != nil {
		panic(err)
	}
	// enumerate
	cnt := map[string]int{}
	walk(f0, func(fn string, x ast.Node, list *[]ast.Stmt, i int) bool {
		switch v := x.(type) {
		case *ast.BinaryExpr:
			for a := range swaps[v.Op] {
				points = append(points, point{"binop", cnt["binop"], a})
			}
			cnt["binop"]++
		case *ast.IfStmt:
			points = append(points, point{"negif", cnt["negif"], 0})
			cnt["negif"]++
		case *ast.BranchStmt:
			if v.Tok == token.BREAK || v.Tok == token.CONTINUE {
				points = append(points, point{"branch", cnt["branch"], 0})
			}
			cnt["branch"]++
		case *ast.BasicLit:
			if v.Kind == token.INT {
				points = append(points, point{"intlit", cnt["intlit"], 0})
			}
			cnt["intlit"]++
		case *ast.ExprStmt, *ast.IncDecStmt, *ast.DeferStmt, *ast.GoStmt, *ast.SendStmt:
			if list != nil {
				points = append(points, point{"delstmt", cnt["delstmt"], 0})
			}
			cnt["delstmt"]++
		case *ast.AssignStmt:
			if list != nil && v.Tok != token.DEFINE {
				points = append(points, point{"delstmt", cnt["delstmt"], 0})
			}
			cnt["delstmt"]++
		case *ast.ReturnStmt:
			if list != nil {
				points = append(points, point{"retnil", cnt["retnil"], 0})
			}
			cnt["retnil"]++
		}
		return true
	})
	for _, p := range points {
		fset := token.NewFileSet()
		f, _ := parser.ParseFile(fset, file, src, parser.ParseComments)
		c := map[string]int{}
		done := false
		walk(f, func(fn string, x ast.Node, list *[]ast.Stmt, i int) bool {
			if done {
				return false
			}
			line := fset.Position(x.Pos()).Line
			hit := func(kind string) bool {
				k := c[kind]
				c[kind]++
				return p.kind == kind && k == p.idx
			}
			switch v := x.(type) {
			case *ast.BinaryExpr:
				if hit("binop") {
					old := v.Op
					v.Op = swaps[v.Op][p.alt]
					done = true
					emit(fset, f, mut{Kind: "binop", Func: fn, Line: line, Desc: fmt.Sprintf("%s -> %s", old, v.Op)})
				}
			case *ast.IfStmt:
				if hit("negif") {
					v.Cond = &ast.UnaryExpr{Op: token.NOT, X: &ast.ParenExpr{X: v.Cond}}
					done = true
					emit(fset, f, mut{Kind: "negif", Func: fn, Line: line, Desc: "condition negated"})
				}
			case *ast.BranchStmt:
				if hit("branch") && (v.Tok == token.BREAK || v.Tok == token.CONTINUE) {
					old := v.Tok
					if v.Tok == token.BREAK {
						v.Tok = token.CONTINUE
					} else {
						v.Tok = token.BREAK
					}
					done = true
					emit(fset, f, mut{Kind: "branch", Func: fn, Line: line, Desc: fmt.Sprintf("%s -> %s", old, v.Tok)})
				}
			case *ast.BasicLit:
				if hit("intlit") && v.Kind == token.INT {
					if n, err := strconv.ParseInt(v.Value, 0, 64); err == nil {
						old := v.Value
						v.Value = strconv.FormatInt(n+1, 10)
						done = true
						emit(fset, f, mut{Kind: "intlit", Func: fn, Line: line, Desc: old + " -> " + v.Value})
					}
				}
			case *ast.ExprStmt, *ast.IncDecStmt, *ast.DeferStmt, *ast.GoStmt, *ast.SendStmt:
				if hit("delstmt") && list != nil {
					(*list)[i] = &ast.EmptyStmt{Semicolon: x.Pos(), Implicit: false}
					done = true
					emit(fset, f, mut{Kind: "delstmt", Func: fn, Line: line, Desc: "statement deleted"})
				}
			case *ast.AssignStmt:
				if hit("delstmt") && list != nil && v.Tok != token.DEFINE {
					(*list)[i] = &ast.EmptyStmt{Semicolon: x.Pos(), Implicit: false}
					done = true
					emit(fset, f, mut{Kind: "delstmt", Func: fn, Line: line, Desc: "assignment deleted"})
				}
			case *ast.ReturnStmt:
				if hit("retnil") && list != nil {
					// replace a returned error identifier `err` (last result) by nil
					if k := len(v.Results); k > 0 {
						if id, ok := v.Results[k-1].(*ast.Ident); ok && id.Name == "err" {
							v.Results[k-1] = ast.NewIdent("nil")
							done = true
							emit(fset, f, mut{Kind: "retnil", Func: fn, Line: line, Desc: "returned err replaced by nil"})
						}
					}
				}
			}
			return true
		})
	}
}
