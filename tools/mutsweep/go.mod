module mutsweep

go 1.23
