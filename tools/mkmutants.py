#!/usr/bin/env python3
"""Generates the must-fail corpus (selftest/mutants/<prop>-<n>.patch) and the must-pass corpus
(selftest/neutral/<n>.patch) as unified diffs against /repo HEAD from a list of textual edits."""
import subprocess, os, sys, json
REPO='/repo'
M=[ # (property, file under src/, old, new, description)
 ("C01","accountant/accountant.go","	if err := pourFunds(leaf.Transaction.IssuerAddress, *leaf, &spiceIn, &spiceOut); err != nil {\n		return err\n	}\n","","drop the leaf's own pourFunds call"),
 ("C01","accountant/founds.go","if err := in.Drain(*out, &sink); err != nil {","if err := out.Drain(*in, &sink); err != nil {","swap in/out in checkHasSufficientfunds"),
 ("C01","accountant/accountant.go","		if isLeaf {\n			if err := ab.validateLeaf(ctx, existingLeaf); err != nil {","		if isLeaf && false {\n			if err := ab.validateLeaf(ctx, existingLeaf); err != nil {","skip validateLeaf for tips in addLeafMemorized"),
 ("C01","accountant/accountant.go","	if !leaf.Transaction.IsSpiceTransfer() || trusted {","	if !leaf.Transaction.IsSpiceTransfer() || trusted || err == nil {","treat every signer as trusted"),
 ("C03","accountant/storage.go","		if _, err := txn.Get(trxHash); err == nil {\n			return ErrTrxInVertexAlreadyExists\n		}\n		return txn.SetEntry(badger.NewEntry(trxHash, vrxHash))","		return txn.SetEntry(badger.NewEntry(trxHash, vrxHash))","saveTrxInVertex without the Get"),
 ("C03","accountant/accountant.go","			ab.dag.DeleteVertex(string(leaf.Hash[:]))\n			ab.removeTrxInVertex(leaf.Transaction.Hash[:])","			ab.dag.DeleteVertex(string(leaf.Hash[:]))","drop removeTrxInVertex in the edge roll-back"),
 ("C03","accountant/accountant.go","	if err := ab.saveTrxInVertex(leaf.Transaction.Hash[:], leaf.Hash[:]); err != nil {","	if err := ab.saveTrxInVertex(leaf.Transaction.Hash[:], leaf.LeftParentHash[:]); err != nil {","index the vertex under the parent's hash"),
 ("C04","accountant/vertex.go","	blockData = binary.LittleEndian.AppendUint64(blockData, uint64(v.Weight))\n","","drop Weight from initData"),
 ("C04","transaction/transaction.go","	return v.Verify(message, t.ReceiverSignature, t.Hash, t.ReceiverAddress)","	return v.Verify(message, t.ReceiverSignature, t.Hash, t.IssuerAddress)","receiver signature checked against the issuer address"),
 ("C04","accountant/accountant.go","	if err := leaf.verify(ab.verifier); err != nil {\n		ab.log.Error(\n			fmt.Sprintf(\n				\"Accounting book rejected leaf [ %v ] from [ %v ] referring to [ %v ] and [ %v ] when verifying, %s.\",","	if err := leaf.verify(ab.verifier); err != nil && false {\n		ab.log.Error(\n			fmt.Sprintf(\n				\"Accounting book rejected leaf [ %v ] from [ %v ] referring to [ %v ] and [ %v ] when verifying, %s.\",","ignore the verification result on the gossip path"),
 ("C05","spice/spice.go","				from.Currency -= 1\n","","borrow without decrementing the currency part"),
 ("C05","spice/spice.go","			if amount.Currency > from.Currency {","			if amount.Currency >= from.Currency {","off-by-one in the insufficient-funds guard"),
 ("C05","accountant/accountant.go","	if !isCanonical(leaf.Transaction.Spice) {\n		return ErrLeafRejected\n	}\n","","no canonical-form check on the gossip route"),
 ("C06","accountant/accountant.go","	if err := s.Drain(spiceOut, &spice.Melange{}); err != nil {","	if err := s.Supply(spiceOut); err != nil {","add spiceOut instead of draining it"),
 ("C06","accountant/accountant.go","	if err := s.Supply(spiceIn); err != nil {\n		return Balance{}, errors.Join(ErrBalanceCalculationUnexpectedFailure, err)\n	}\n\n	if err := s.Drain","	s = spiceIn\n\n	if err := s.Drain","return the balance without the checkpoint"),
 ("C07","accountant/precalculate.go","		in: s.Clone(),","		out: s.Clone(),","set stores the previous checkpoint into out"),
 ("C07","accountant/accountant.go","	if err := ab.performOnAncestorWalker(ctx, string(topVrxHash[:]), add); err != nil && !errors.Is(err, ErrBreak) {","	if err := ab.performOnAncestorWalker(ctx, tempTopVrxHash, add); err != nil && !errors.Is(err, ErrBreak) {","delete walk starts at the tip instead of the cut"),
 ("C07","accountant/accountant.go","	_, err := ab.dag.GetVertex(string(vrxHash))\n	if err == nil {\n		return true, nil\n	}\n	return ab.checkVertexExistInStorage(vrxHash)","	_, err := ab.dag.GetVertex(string(vrxHash))\n	if err == nil {\n		return true, nil\n	}\n	return false, nil","checkVertexExists without the storage fall-back"),
 ("C08","accountant/accountant.go","		case <-ctx.Done():\n			drainWalker(vertices)\n			return nil, ErrLeafBallanceCalculationProcessStopped","		case <-ctx.Done():\n			return nil, ErrLeafBallanceCalculationProcessStopped","early return without draining the walker"),
 ("C08","accountant/accountant.go","func (ab *AccountingBook) truncate(ctx context.Context) error {\n	ab.mux.Lock()\n	defer ab.mux.Unlock()","func (ab *AccountingBook) truncate(ctx context.Context) error {\n	ab.mux.RLock()\n	defer ab.mux.RUnlock()","truncate under the read lock only"),
 ("C09","accountant/accountant.go","			ab.dag.DeleteVertex(string(leaf.Hash[:]))\n			ab.removeTrxInVertex(leaf.Transaction.Hash[:])\n			ab.log.Error(\n				fmt.Sprintf(\n					\"Accounting book rejected leaf [ %v ] from [ %v ] referring to [ %v ] and [ %v ] when adding edge","			ab.removeTrxInVertex(leaf.Transaction.Hash[:])\n			ab.log.Error(\n				fmt.Sprintf(\n					\"Accounting book rejected leaf [ %v ] from [ %v ] referring to [ %v ] and [ %v ] when adding edge","edge roll-back leaves the vertex in the graph"),
 ("C09","accountant/vertex.go","	return max(leftWeight, rightWeight) + 1","	return min(leftWeight, rightWeight) + 1","calcNewWeight = min+1"),
 ("C09","accountant/accountant.go","	if err := ab.dag.AddVertexByID(string(leaf.Hash[:]), leaf); err != nil {","	if err := ab.dag.AddVertexByID(string(leaf.Transaction.Hash[:]), leaf); err != nil {","store the vertex under its transaction hash"),
 ("C10","accountant/accountant.go","	if trx.IssuerAddress == ab.signer.Address() {\n		return Vertex{}, ErrCannotTransferFoundsViaOwnedNode\n	}","	if trx.IssuerAddress == trx.ReceiverAddress {\n		return Vertex{}, ErrCannotTransferFoundsViaOwnedNode\n	}","compare the issuer with the receiver instead of the signer"),
 ("C10","accountant/accountant.go","	if leaf.Transaction.IsEmpty() {\n		return ErrTrxIsEmpty\n	}\n	if !isCanonical(leaf.Transaction.Spice) {","	if !isCanonical(leaf.Transaction.Spice) {","drop the emptiness guard in AddLeaf"),
 ("C11","gossip/gossip.go","		if err := g.sendToAccountant(ctx, vg.Vertex); err != nil {\n			g.log.Info(fmt.Sprintf(\"node [ %s ] adding leaf error: %s.\", g.signer.Address(), err))\n			return nil, ErrFailedToProcessGossip\n		}","		if err := g.sendToAccountant(ctx, vg.Vertex); err != nil {\n			g.log.Info(fmt.Sprintf(\"node [ %s ] adding leaf error: %s.\", g.signer.Address(), err))\n		}","forward although the ledger rejected"),
 ("C11","gossip/gossip.go","	for addr, nd := range g.nodes {\n		if _, ok := set[addr]; ok {\n			continue\n		}\n		go func(client protobufcompiled.GossipAPIClient, addr, url string) {\n			if _, err := client.GossipVrx(","	for addr, nd := range g.nodes {\n		go func(client protobufcompiled.GossipAPIClient, addr, url string) {\n			if _, err := client.GossipVrx(","drop the skip test in gossipVertex"),
 ("C12","gossip/gossip.go","			g.log.Error(fmt.Sprintf(\"verifying gossiper address [ %s ] invalid signature for hash %v gossip\", member.Address, hash))\n			continue","			g.log.Error(fmt.Sprintf(\"verifying gossiper address [ %s ] invalid signature for hash %v gossip\", member.Address, hash))","keep entries whose signature failed"),
 ("C12","gossip/gossip.go","	set := g.verifyGossipers([32]byte(tg.Trx.Hash), tg.Gossipers)\n	if _, ok := set[g.signer.Address()]; !ok {","	set := g.verifyGossipers([32]byte(tg.Trx.Hash), tg.Gossipers)\n	if len(tg.Gossipers) < 100 {","skip-self decision no longer uses the verified set"),
 ("C13","accountant/replier.go","	if m.repeated > maxRepeats {","	if m.repeated > maxRepeats+1 {","off-by-one on the retry bound"),
 ("C13","accountant/replier.go","	if len(b.members) == maxArraySize {\n		return ErrNotEnoughSpace\n	}\n","","capacity check removed"),
 ("C14","accountant/accountant.go","		if err := ab.dag.AddVertexByID(string(vrx.Hash[:]), vrx); err != nil {\n			cancelF(err)\n			return\n		}","		if err := ab.dag.AddVertexByID(string(vrx.Hash[:]), vrx); err != nil {\n			continue\n		}","duplicate vertex tolerated while loading"),
 ("C14","accountant/accountant.go","	if ab.DagLoaded() {\n		cancelF(ErrDagIsLoaded)\n		return\n	}","	if ab.DagLoaded() {\n		cancelF(ErrDagIsLoaded)\n	}","already-loaded node loads again"),
 ("C15","gossip/gossip.go","	if len(vg.Hash) != 32 || len(vg.LeftParentHash) != 32 || len(vg.RightParentHash) != 32 || len(vg.Transaction.Hash) != 32 {","	if len(vg.Hash) != 32 || len(vg.LeftParentHash) != 32 || len(vg.Transaction.Hash) != 32 {","validateProtoVertex forgets the right parent"),
 ("C15","transformers/transaction.go","prTrx.ReceiverAddress == \"\" || len(prTrx.Hash) != 32 || prTrx.Spice == nil ||","prTrx.ReceiverAddress == \"\" || len(prTrx.Hash) != 32 ||","ProtoTrxToTrx forgets the nil spice"),
 ("C16","notaryserver/notary.server.go","	if err := trx.VerifyIssuerReceiver(s.verifier); err != nil {","	if err := trx.VerifyIssuer(s.verifier); err != nil {","Confirm checks the issuer only"),
 ("C16","notaryserver/notary.server.go","	if ok := s.randDataProv.ValidateData(in.Address, in.Data); !ok {\n		s.log.Error(fmt.Sprintf(\"waiting transactions endpoint, failed","	if ok := s.randDataProv.ValidateData(in.Address, in.Data); !ok && false {\n		s.log.Error(fmt.Sprintf(\"waiting transactions endpoint, failed","Waiting ignores the challenge"),
 ("C17","cache/cache.go","	if trx.ReceiverAddress != address {\n		return transaction.Transaction{}, errors.Join(ErrUnauthorized","	if trx.ReceiverAddress != address && trx.IssuerAddress != address {\n		return transaction.Transaction{}, errors.Join(ErrUnauthorized","the issuer may remove too"),
 ("C17","cache/cache.go","	return append(originalValues, append([]byte{','}, hexEncodeBytes(newValue[:])...)...)","	return append(originalValues, hexEncodeBytes(newValue[:])...)","add without the separator (bounded stand-in)"),
 ("C19","gossip/gossip.go","			IssuerSignature:   vg.Transaction.IssuerSignature,\n			ReceiverSignature: vg.Transaction.ReceiverSignature,","			IssuerSignature:   vg.Transaction.IssuerSignature,\n			ReceiverSignature: vg.Transaction.IssuerSignature,","issuer signature copied into the receiver slot"),
 ("C19","transformers/transaction.go","		CreatedAt:         time.Unix(0, int64(prTrx.CreatedAt)),","		CreatedAt:         time.Unix(int64(prTrx.CreatedAt), 0),","nanoseconds read as seconds"),
 ("C20","aeswrapper/aes.wrapper.go","	if len(data) < nonceSize {\n		return nil, ErrOpenDataFailure\n	}\n","","no length guard before slicing the nonce"),
 ("C02","spice/spice.go","			to.Currency += amount.Currency\n			from.Currency -= amount.Currency","			to.Currency += amount.Currency","Transfer forgets to debit the currency part"),
]
M2=[ # second batch (with an optional anchor: the edit is made at the first occurrence of `old` after it)
 ("C01","accountant/accountant.go","			if err := pourFunds(leaf.Transaction.IssuerAddress, *vrx, &spiceIn, &spiceOut); err != nil {","			if err := pourFunds(leaf.Transaction.ReceiverAddress, *vrx, &spiceIn, &spiceOut); err != nil {","ancestors counted for the receiver instead of the issuer","func (ab *AccountingBook) validateLeaf("),
 ("C01","accountant/founds.go","		return errors.Join(ErrDoubleSpending, err)","		return nil","overdraw error swallowed"),
 ("C03","accountant/accountant.go","				ab.dag.DeleteVertex(string(vrx.Hash[:]))\n				ab.removeTrxInVertex(vrx.Transaction.Hash[:])\n","				ab.dag.DeleteVertex(string(vrx.Hash[:]))\n","invalid tip dropped by getValidLeaves keeps its index entry"),
 ("C03","accountant/accountant.go","		ab.removeTrxInVertex(trx.Hash[:])\n		ab.log.Error(fmt.Sprintf(\"Accounting book rejected new leaf","		ab.log.Error(fmt.Sprintf(\"Accounting book rejected new leaf","CreateLeaf leaves the index entry when the graph refuses the vertex"),
 ("C04","accountant/vertex.go","	return verifier.Verify(data, v.Signature[:], v.Hash, v.SignerPublicAddress)","	return verifier.Verify(data, v.Signature[:], v.Hash, v.Transaction.IssuerAddress)","seal verified against the issuer address"),
 ("C04","accountant/vertex.go","	switch len(v.Transaction.ReceiverSignature) != 0 {","	switch len(v.Transaction.ReceiverSignature) > 64 {","receiver signature never verified"),
 ("C05","spice/spice.go","			if math.MaxUint64-amount.Currency < to.Currency {\n				return ErrValueOverflow\n			}\n","","Transfer without the overflow guard","func Transfer("),
 ("C06","accountant/accountant.go","		if err := pourFunds(walletPubAddr, *vrx, &spiceIn, &spiceOut); err != nil {\n			return Balance{}, err\n		}\n","","balance ignores the tip vertex","func (ab *AccountingBook) CalculateBalance("),
 ("C08","accountant/accountant.go","					drainWalker(vertices)\n					break leavesLoop\n				default:\n				}","					break leavesLoop\n				default:\n				}","StreamDAG abandons the walker on cancellation","func (ab *AccountingBook) StreamDAG("),
 ("C08","accountant/accountant.go","	ab.mux.Lock()\n	defer ab.mux.Unlock()\n\nVertexLoop:","	ab.mux.Lock()\n\nVertexLoop:","LoadDag never releases the ledger lock"),
 ("C10","accountant/accountant.go","	if leaf.Transaction.IssuerAddress == ab.genesisPublicAddress {\n		return ErrCannotTransferFoundsFromGenesisWallet\n	}\n","","gossip route accepts spends of the genesis wallet"),
 ("C11","gossip/gossip.go","createGossiperMessageToSign(g.signer.Address(), [32]byte(vg.Vertex.Hash))","createGossiperMessageToSign(g.signer.Address(), [32]byte(vg.Vertex.Transaction.Hash))","own gossiper entry signed over another hash"),
 ("C11","gossip/gossip.go","			g.log.Error(fmt.Sprintf(\"transaction gossiper trx %v verification failed, %s\", trx.Hash, err))\n			return nil, ErrFailedToProcessGossip\n","			g.log.Error(fmt.Sprintf(\"transaction gossiper trx %v verification failed, %s\", trx.Hash, err))\n","transaction forwarded although the issuer signature failed"),
 ("C12","gossip/gossip.go","createGossiperMessageToSign(member.Address, hash), member.Signature","createGossiperMessageToSign(member.Address, [32]byte(member.Digest)), member.Signature","entries signed for another item are accepted"),
 ("C13","accountant/replier.go","	m.repeated++\n","","retries are not counted"),
 ("C13","accountant/replier.go","	b.members = b.members[1:]\n","","getNext never removes what it hands out"),
 ("C14","accountant/accountant.go","				if err := ab.dag.AddEdge(string(conn[:]), string(vrx.Hash[:])); err != nil {\n					cancelF(err)\n					return\n				}","				if err := ab.dag.AddEdge(string(conn[:]), string(vrx.Hash[:])); err != nil {\n					cancelF(err)\n				}","load goes on after an unknown parent"),
 ("C16","notaryserver/notary.server.go","		s.log.Error(fmt.Sprintf(\"reject endpoint failed to verify signature of transaction [ %x ] for address: %s, %s\", in.Hash, in.Address, err))\n		return nil, ErrProcessing\n","		s.log.Error(fmt.Sprintf(\"reject endpoint failed to verify signature of transaction [ %x ] for address: %s, %s\", in.Hash, in.Address, err))\n","Reject goes on after a failed signature check"),
 ("C16","notaryserver/notary.server.go","	if trx.IsContract() {\n		if len(trx.Data) > s.dataSize {","	if trx.IsContract() && !trx.IsSpiceTransfer() {\n		if len(trx.Data) > s.dataSize {","data-carrying transfer sealed on the issuer signature alone"),
 ("C16","notaryserver/notary.server.go","	if string(in.Data) != in.Address {\n		return nil, ErrVerification\n	}\n","","Balance no longer requires the signed data to be the own address"),
 ("C17","cache/cache.go","	if trx.IssuerAddress == trx.ReceiverAddress {\n		addresses = addresses[1:]","	if trx.IssuerAddress != trx.ReceiverAddress {\n		addresses = addresses[1:]","saved transaction is not listed for its issuer"),
 ("C17","cache/cache.go","	for _, addressKey := range addresses {\n		awaited, err := h.mem.Get(addressKey)\n		if err != nil {\n			if errors.Is(err, bigcache.ErrEntryNotFound) {\n				errs = err","	for _, addressKey := range addresses[1:] {\n		awaited, err := h.mem.Get(addressKey)\n		if err != nil {\n			if errors.Is(err, bigcache.ErrEntryNotFound) {\n				errs = err","removal leaves the hash on the issuer's list"),
 ("C19","gossip/gossip.go","		RightParentHash: vrx.RightParentHash[:],","		RightParentHash: vrx.LeftParentHash[:],","right parent replaced by the left one on the wire"),
 ("C19","transformers/transaction.go","			SupplementaryCurrency: trx.Spice.SupplementaryCurrency,","			SupplementaryCurrency: trx.Spice.Currency,","supplementary amount replaced on the wire"),
 ("C19","gossip/gossip.go","		Weight:          vg.Weight,\n","","weight dropped when reading a vertex off the wire"),
 ("C07","accountant/storage.go","			if len(k) == 32 {\n				continue\n			}","			if len(k) >= 32 {\n				continue\n			}","previous checkpoint entries are skipped when carried over"),
 ("C15","gossip/gossip.go","	if vg.Vertex == nil || len(vg.Vertex.Hash) != 32 {\n		return nil, ErrNilVertex\n	}","	if vg.Vertex == nil {\n		return nil, ErrNilVertex\n	}","GossipVrx no longer checks the hash length"),
 ("C04","transaction/transaction.go","	n += copy(message[n:], b1)\n","	copy(message[n:], b1)\n","New: the currency bytes are overwritten by the supplementary bytes in the signed message","func New("),
 ("C04","transaction/transaction.go","	binary.LittleEndian.PutUint64(b1, t.Spice.Currency)","	binary.LittleEndian.PutUint64(b1, t.Spice.SupplementaryCurrency)","Sign: countersignature over a message with the wrong amount","func (t *Transaction) Sign("),
 ("C04","transaction/transaction.go","	n += copy(message[n:], []byte(t.IssuerAddress))\n	n += copy(message[n:], []byte(t.ReceiverAddress))","	n += copy(message[n:], []byte(t.ReceiverAddress))\n	n += copy(message[n:], []byte(t.IssuerAddress))","GetMessage: issuer and receiver swapped in the verified message","func (t *Transaction) GetMessage("),
 ("C20","fileoperations/wallet.go","	raw, err := os.ReadFile(h.cfg.WalletPath)","	raw, err := os.ReadFile(h.cfg.WalletPemPath)","ReadWallet reads another file"),
 ("C20","fileoperations/wallet.go","	closed, err := h.s.Encrypt(passwd, raw)","	closed, err := h.s.Encrypt(raw, passwd)","SaveWallet seals the key with the wallet as key"),
 ("C20","fileoperations/wallet.go","	opened, err := h.s.Decrypt(passwd, raw)\n	if err != nil {","	opened, err := h.s.Decrypt(passwd, raw)\n	if err != nil && len(opened) == 0 {","ReadWallet goes on after a failed decryption when some bytes came back"),
 ("C04","wallet/verifier.go","	targetChecksum := checksum(append([]byte{version}, pubKey...))","	targetChecksum := checksum(append([]byte{version}, pubKey[1:]...))","address checksum no longer covers the first key byte"),
 ("C04","wallet/verifier.go","	if !bytes.Equal(hash[:], digest[:]) {\n		return errors.New(\"hash is corrupted\")\n	}\n\n	pubKey, err := h.AddressToPubKey(address)","	pubKey, err := h.AddressToPubKey(address)","verifier no longer compares the hash with the digest of the message"),
 ("C04","wallet/verifier.go","	if !ed25519.Verify(pubKey, digest[:], signature) {","	if !ed25519.Verify(pubKey, hash[:], signature) && !ed25519.Verify(pubKey, message, signature) {","signature accepted over the raw message as well"),
 ("C04","wallet/verifier.go","	if !bytes.Equal(actualChecksum, targetChecksum) {\n		return []byte{}, errors.New(\"address checksum is not equal\")","	if !bytes.Equal(actualChecksum, targetChecksum) && len(address) < 10 {\n		return []byte{}, errors.New(\"address checksum is not equal\")","address checksum only enforced for short addresses"),
 ("C11","cache/flashback.go","	defer f.mem.Set(string(h), []byte{})\n","","the recent-hash memory never records what it was asked about"),
 ("C11","cache/flashback.go","	if err == nil {\n		return true, nil\n	}","	if err == nil {\n		return false, nil\n	}","a remembered hash is reported as new","func (f *Flashback) HasHash("),
 ("C11","gossip/gossip.go","createGossiperMessageToSign(g.signer.Address(), vrx.Hash)","createGossiperMessageToSign(g.signer.Address(), vrx.Transaction.Hash)","origin signs its gossiper entry over the transaction hash"),
 ("C12","gossip/gossip.go","			set := map[string]*protobufcompiled.Gossiper{g.signer.Address(): gossiper}\n			g.gossipVertex(ctx, vg, set)","			set := map[string]*protobufcompiled.Gossiper{}\n			g.gossipVertex(ctx, vg, set)","origin forwards with an empty verified set"),
 ("C14","accountant/accountant.go","			case *Vertex:\n				cVrx <- vrx\n			default:\n				break leavesLoop\n			}\n			vertices, _, err := ab.dag.AncestorsWalker(l)","			case *Vertex:\n				_ = vrx\n			default:\n				break leavesLoop\n			}\n			vertices, _, err := ab.dag.AncestorsWalker(l)","StreamDAG does not send the tips themselves"),
 ("C14","accountant/accountant.go","		}\n		close(cVrx)\n	}(cVrx)","		}\n	}(cVrx)","StreamDAG never closes the stream"),
 ("C16","dataprovider/dataprovider.go","	if !ok {\n		return false\n	}\n","	_ = ok\n","a challenge is accepted for an address that was never issued one (empty data equals the zero value)"),
 ("C16","dataprovider/dataprovider.go","	return bytes.Equal(data, d.raw)","	return bytes.Equal(data[:len(data)/2], d.raw[:len(data)/2]) || len(data) == len(d.raw)","a challenge of the right length is accepted whatever its bytes"),
 ("C16","dataprovider/dataprovider.go","	if d.timestamp < time.Now().UnixNano() {\n		return false\n	}\n","","expired challenges stay valid"),
]
M2+=[ # completeness of loops (covers clauses)
 ("C17","cache/cache.go","	for _, hash := range hashes {\n		raw, err := h.mem.Get(encodeTrxKey(hash[:]))","	for _, hash := range hashes[:min(len(hashes), 100)] {\n		raw, err := h.mem.Get(encodeTrxKey(hash[:]))","the listing is silently capped at 100 awaiting transactions"),
 ("C17","cache/cache.go","		if err != nil {\n			errs = err\n			continue\n		}\n		trxs = append(trxs, trx)","		if err != nil {\n			errs = err\n			break\n		}\n		trxs = append(trxs, trx)","the listing stops at the first transaction that does not decode"),
 ("C16","notaryserver/notary.server.go","	for _, trx := range trxs {\n		protoTrx, err := transformers.TrxToProtoTrx(trx)\n		if err != nil {\n			s.log.Warn(fmt.Sprintf(\"waiting endpoint","	for _, trx := range trxs[:min(len(trxs), 50)] {\n		protoTrx, err := transformers.TrxToProtoTrx(trx)\n		if err != nil {\n			s.log.Warn(fmt.Sprintf(\"waiting endpoint","the waiting endpoint answers at most 50 awaiting transactions"),
 ("C12","gossip/gossip.go","invalid signature for hash %v gossip\", member.Address, hash))\n			continue","invalid signature for hash %v gossip\", member.Address, hash))\n			break","the gossiper list is abandoned at the first entry with a bad signature (valid entries behind it are dropped)"),
]
M2+=[ # decisions restated over the data (a clause triggered by a predicate call is vacuous once the code decides differently)
 ("C10","accountant/accountant.go","			if vrx.Transaction.IsEmpty() {\n				cancelF(fmt.Errorf(\"loading DAG process stopped due to transaction being empty","			if !vrx.Transaction.IsContract() && vrx.Transaction.Spice.Currency == 0 && vrx.Weight > 0 {\n				cancelF(fmt.Errorf(\"loading DAG process stopped due to transaction being empty","LoadDag's emptiness test rewritten without IsEmpty and wrong for fractional amounts and weight 0"),
]
N=[ # neutral edits: every check must stay at exit 0
 ("accountant/accountant.go","	validatedLeafs := make([]*Vertex, 0, 2)\n","	validatedLeafs := make([]*Vertex, 0, 2)\n	ab.log.Debug(\"validating the parents of an incoming leaf\")\n","add a log line"),
 ("accountant/founds.go","	sink := spice.New(0, 0)\n	if err := in.Drain(*out, &sink); err != nil {","	target := spice.New(0, 0)\n	if err := in.Drain(*out, &target); err != nil {","rename a local"),
 ("accountant/accountant.go","	if trx.IsEmpty() {\n		return Vertex{}, ErrTrxIsEmpty\n	}\n	if !isCanonical(trx.Spice) {\n		return Vertex{}, ErrNewLeafRejected\n	}","	if !isCanonical(trx.Spice) {\n		return Vertex{}, ErrNewLeafRejected\n	}\n	if trx.IsEmpty() {\n		return Vertex{}, ErrTrxIsEmpty\n	}","reorder two independent guards"),
 ("notaryserver/notary.server.go","	if in == nil || len(in.Hash) != 32 {\n		return nil, ErrRequestIsEmpty\n	}\n	ok, err := s.flash.HasAddress(in.Address)\n	if err != nil {\n		s.log.Error(fmt.Sprintf(\"balance endpoint","	if in == nil || len(in.Hash) != 32 || len(in.Address) == 0 {\n		return nil, ErrRequestIsEmpty\n	}\n	ok, err := s.flash.HasAddress(in.Address)\n	if err != nil {\n		s.log.Error(fmt.Sprintf(\"balance endpoint","an extra guard"),
 ("spice/spice.go","func (m *Melange) copyFrom(c Melange) {\n	m.Currency = c.Currency\n	m.SupplementaryCurrency = c.SupplementaryCurrency\n}","func (m *Melange) copyFrom(c Melange) {\n	m.SupplementaryCurrency = c.SupplementaryCurrency\n	m.Currency = c.Currency\n}","reorder two independent stores"),
 ("notaryserver/notary.server.go","func (s *server) Propose(ctx context.Context, in *protobufcompiled.Transaction) (*emptypb.Empty, error) {\n	t := time.Now()","func (s *server) Propose(ctx context.Context, in *protobufcompiled.Transaction) (*emptypb.Empty, error) {\n	defer func() {\n		s.log.Debug(\"propose endpoint done\")\n	}()\n	t := time.Now()","a new deferred func literal in front of the others (closure ordinals shift)"),
 ("accountant/accountant.go","	fm := newFoundsMemMap()\n","	logStep := func(msg string) { ab.log.Info(msg) }\n	logStep(\"truncate: carrying the previous checkpoint over\")\n	fm := newFoundsMemMap()\n","a new closure in front of truncate's callbacks (closure ordinals shift)"),
 ("accountant/accountant.go","	visited := make(map[string]struct{})\n	spiceOut := spice.New(0, 0)","	for _, h := range [][32]byte{leaf.LeftParentHash, leaf.RightParentHash} {\n		if h == leaf.Hash {\n			ab.log.Warn(\"leaf names itself as a parent\")\n		}\n	}\n	visited := make(map[string]struct{})\n	spiceOut := spice.New(0, 0)","a new loop in front of a loop that carries invariants (loop ordinals shift) in validateLeaf"),
 ("accountant/accountant.go","	var i int\n	for _, item := range ab.dag.GetLeaves() {","	var i int\n	for n := 0; n < 2; n++ {\n		_ = n\n	}\n	for _, item := range ab.dag.GetLeaves() {","a new loop in front of getValidLeaves' loop (ordinals shift)"),
 ("accountant/replier.go","	maxArraySize = 500","	maxArraySize = 600","a larger orphan buffer (the property asks for a bound, not for 500)"),
 ("accountant/replier.go","	maxRepeats   = 25","	maxRepeats   = 40","more retries (still bounded)"),
 ("accountant/accountant.go","	truncateDiff       uint64 = 1_000","	truncateDiff       uint64 = 1_500","a deeper cut for truncation"),
 ("gossip/gossip.go","func createGossiperMessageToSign(address string, hash [32]byte) []byte {\n	return append([]byte(address), hash[:]...)\n}","func createGossiperMessageToSign(address string, hash [32]byte) []byte {\n	msg := []byte(address)\n	return append(msg, hash[:]...)\n}","introduce a temporary"),
]
N2=[ # neutral edits that need more than one replacement: (file, [(old,new)...], description)
 ("accountant/accountant.go",[("	if trx.IssuerAddress == ab.signer.Address() {\n		return Vertex{}, ErrCannotTransferFoundsViaOwnedNode","	if ab.isOwnWallet(trx.IssuerAddress) {\n		return Vertex{}, ErrCannotTransferFoundsViaOwnedNode"),("// Address returns signer public address","func (ab *AccountingBook) isOwnWallet(a string) bool {\n	return a == ab.signer.Address()\n}\n\n// Address returns signer public address")],"extract a helper for the own-wallet test"),
 ("accountant/vertex.go",[("	switch len(v.Transaction.ReceiverSignature) != 0 {\n	case true:\n		if err := v.Transaction.VerifyIssuerReceiver(verifier); err != nil {\n			return err\n		}\n	default:\n		if err := v.Transaction.VerifyIssuer(verifier); err != nil {\n			return err\n		}\n	}","	if len(v.Transaction.ReceiverSignature) != 0 {\n		if err := v.Transaction.VerifyIssuerReceiver(verifier); err != nil {\n			return err\n		}\n	} else if err := v.Transaction.VerifyIssuer(verifier); err != nil {\n		return err\n	}")],"switch on a boolean rewritten as if/else"),
 ("notaryserver/notary.server.go",[("	if in == nil || len(in.Hash) != 32 || len(in.Data) != 32 {\n		return nil, ErrRequestIsEmpty\n	}\n\n	if err := s.verifier.Verify(in.Data, in.Signature, [32]byte(in.Hash), in.Address); err != nil {\n		s.log.Error(fmt.Sprintf(\"reject endpoint","	if in == nil || !(len(in.Hash) == 32 && len(in.Data) == 32) {\n		return nil, ErrRequestIsEmpty\n	}\n\n	if err := s.verifier.Verify(in.Data, in.Signature, [32]byte(in.Hash), in.Address); err != nil {\n		s.log.Error(fmt.Sprintf(\"reject endpoint")],"De Morgan on a guard"),
 ("gossip/gossip.go",[("		if member == nil || len(member.Digest) != 32 {\n			continue\n		}","		if member == nil {\n			continue\n		}\n		if len(member.Digest) != 32 {\n			continue\n		}")],"split a guard in two"),
 ("spice/spice.go",[("	toCp := to.Clone()\n	fromCp := from.Clone()","	fromCp := from.Clone()\n	toCp := to.Clone()")],"reorder two independent declarations"),
 ("accountant/accountant.go",[("	if leaf.Transaction.IssuerAddress == leaf.SignerPublicAddress {\n		return ErrCannotTransferFoundsViaOwnedNode","	if leaf.SignerPublicAddress == leaf.Transaction.IssuerAddress {\n		return ErrCannotTransferFoundsViaOwnedNode")],"swap the operands of =="),
 ("cache/cache.go",[("	var errs error\n	addresses := []string{encodeAddressKey(trx.IssuerAddress), encodeAddressKey(trx.ReceiverAddress)}","	var errs error = nil\n	issuerKey, receiverKey := encodeAddressKey(trx.IssuerAddress), encodeAddressKey(trx.ReceiverAddress)\n	addresses := []string{issuerKey, receiverKey}")],"name two sub-expressions"),
 ("accountant/accountant.go",[("		visited[ancestorID] = struct{}{}\n\n		item, err := ab.dag.GetVertex(ancestorID)\n		if err != nil {\n			drainWalker(vertices)\n			return errors.Join(ErrUnexpected, err)\n		}\n		switch vrx := item.(type) {\n		case *Vertex:\n			if vrx == nil {\n				drainWalker(vertices)\n				return ErrUnexpected\n			}\n			if vrx.Hash == leaf.LeftParentHash","\n		item, err := ab.dag.GetVertex(ancestorID)\n		if err != nil {\n			drainWalker(vertices)\n			return errors.Join(ErrUnexpected, err)\n		}\n		switch vrx := item.(type) {\n		case *Vertex:\n			if vrx == nil {\n				drainWalker(vertices)\n				return ErrUnexpected\n			}\n			if vrx.Hash == leaf.LeftParentHash")],"drop a redundant de-duplication (the graph library's walker never delivers an id twice)"),
 ("transformers/transaction.go",[("	if prTrx == nil || prTrx.Subject == \"\" || prTrx.IssuerAddress == \"\" ||","	if prTrx == nil {\n		return transaction.Transaction{}, ErrTrxIsEmpty\n	}\n	if prTrx.Subject == \"\" || prTrx.IssuerAddress == \"\" ||")],"nil test moved into its own statement"),
]
N3=[ # neutral edits by regular expression inside one function: (file, unique anchor of the function, regex, replacement, description)
 ("accountant/accountant.go","func (ab *AccountingBook) validateLeaf(",r"\bleaf\b","tip","rename a parameter of a function under contract (validateLeaf: leaf -> tip)"),
 ("accountant/accountant.go","func (ab *AccountingBook) CalculateBalance(",r"\bwalletPubAddr\b","address","rename a parameter (CalculateBalance: walletPubAddr -> address)"),
 ("gossip/gossip.go","func (g *gossiper) verifyGossipers(",r"\bmember\b","entry","rename a range variable (verifyGossipers: member -> entry)"),
 ("spice/spice.go","func Transfer(",r"\bamount\b","amt","rename a parameter (Transfer: amount -> amt)"),
 ("notaryserver/notary.server.go","func (s *server) Confirm(",r"\btrx\b","confirmed","rename a local (Confirm: trx -> confirmed)"),
]
N5=[ # more neutral edits in the format of N (appended last so that earlier names keep their numbers)
 ("gossip/gossip.go","	for _, member := range s {\n		if member == nil || len(member.Digest) != 32 {","	for i := 0; i < len(s); i++ {\n		member := s[i]\n		if member == nil || len(member.Digest) != 32 {","a range over the gossiper list rewritten as a counted loop (the covers clause must still recognise it)"),
 ("gossip/gossip.go","	m := make(map[string]*protobufcompiled.Gossiper, len(s))\n","	m := make(map[string]*protobufcompiled.Gossiper, len(s))\n	if len(s) == 0 {\n		return m\n	}\n","an early return for an empty gossiper list in front of the loop"),
]
N4=[ # neutral renames across files: (files, regex, replacement, description)
 (["accountant/founds.go","accountant/accountant.go"],r"\bpourFunds\b","pourVertexFunds","rename a function under contract that event patterns name (pourFunds)"),
 (["accountant/storage.go","accountant/accountant.go"],r"\bsaveTrxInVertex\b","indexTransaction","rename a method under contract that event patterns name (saveTrxInVertex)"),
 (["gossip/gossip.go"],r"\bverifyGossipers\b","verifiedGossipers","rename a method under contract (verifyGossipers)"),
 (["accountant/accountant.go"],r"\bdagLoaded\b","ledgerLoaded","rename a struct field that contracts mention (AccountingBook.dagLoaded)"),
 (["accountant/accountant.go"],r"\bgenesisPublicAddress\b","genesisWallet","rename a struct field that contracts mention (AccountingBook.genesisPublicAddress)"),
]
def mk(kind, name, f, old, new, within=None):
    p=os.path.join(REPO,'src',f)
    if not os.path.exists(p): return None
    s=open(p).read()
    start=0
    if within:
        if s.count(within)!=1:
            print("SKIP (anchor not unique):",name); return None
        start=s.index(within)
    if old=="" or s.find(old,start)<0:
        print("SKIP (pattern not found):",name); return None
    i=s.find(old,start)
    open(p,'w').write(s[:i]+new+s[i+len(old):])
    d=subprocess.run(['git','-C',REPO,'diff','--','src'],capture_output=True,text=True).stdout
    subprocess.run(['git','-C',REPO,'checkout','--','src/'+f])
    out=os.path.join('/verif/selftest',kind,name+'.patch')
    open(out,'w').write(d)
    return out
assert subprocess.run(['git','-C',REPO,'status','--porcelain','--','src'],capture_output=True,text=True).stdout.strip()=="" , "repo dirty"
idx={}; meta=[]
for e in M+M2:
    prop,f,old,new,desc=e[:5]
    idx[prop]=idx.get(prop,0)+1
    name="%s-%d"%(prop,idx[prop])
    o=mk('mutants',name,f,old,new,e[5] if len(e)>5 else None)
    if o: meta.append({"name":name,"property":prop,"what":desc,"file":f})
json.dump(meta,open('/verif/selftest/mutants/INDEX.json','w'),indent=1)
nm=[]
for i,e in enumerate(N):
    f,old,new,desc=e[:4]
    o=mk('neutral',"neutral-%d"%(i+1),f,old,new,e[4] if len(e)>4 else None)
    if o: nm.append({"name":"neutral-%d"%(i+1),"what":desc,"file":f})
k=len(N)
for j,(f,edits,desc) in enumerate(N2):
    name="neutral-%d"%(k+j+1)
    p=os.path.join(REPO,'src',f); src=open(p).read(); ok=True
    for old,new in edits:
        if src.count(old)<1: print("SKIP (pattern not found):",name,repr(old[:40])); ok=False; break
        src=src.replace(old,new,1)
    if not ok: continue
    open(p,'w').write(src)
    d=subprocess.run(['git','-C',REPO,'diff','--','src'],capture_output=True,text=True).stdout
    subprocess.run(['git','-C',REPO,'checkout','--','src/'+f])
    open('/verif/selftest/neutral/'+name+'.patch','w').write(d)
    nm.append({"name":name,"what":desc,"file":f})
import re
k=len(N)+len(N2)
for j,(f,anchor,rx,repl,desc) in enumerate(N3):
    name="neutral-%d"%(k+j+1)
    p=os.path.join(REPO,'src',f); src=open(p).read()
    if src.count(anchor)!=1: print("SKIP (anchor):",name); continue
    a=src.index(anchor); b=src.find('\nfunc ',a+10)
    if b<0: b=len(src)
    open(p,'w').write(src[:a]+re.sub(rx,repl,src[a:b])+src[b:])
    d=subprocess.run(['git','-C',REPO,'diff','--','src'],capture_output=True,text=True).stdout
    subprocess.run(['git','-C',REPO,'checkout','--','src/'+f])
    open('/verif/selftest/neutral/'+name+'.patch','w').write(d)
    nm.append({"name":name,"what":desc,"file":f})
k=len(N)+len(N2)+len(N3)
for j,(files,rx,repl,desc) in enumerate(N4):
    name="neutral-%d"%(k+j+1)
    for f in files:
        p=os.path.join(REPO,'src',f); txt=open(p).read(); open(p,'w').write(re.sub(rx,repl,txt))
    d=subprocess.run(['git','-C',REPO,'diff','--','src'],capture_output=True,text=True).stdout
    for f in files: subprocess.run(['git','-C',REPO,'checkout','--','src/'+f])
    open('/verif/selftest/neutral/'+name+'.patch','w').write(d)
    nm.append({"name":name,"what":desc,"file":files[0]})
k=len(N)+len(N2)+len(N3)+len(N4)
for i,e in enumerate(N5):
    f,old,new,desc=e[:4]
    name="neutral-%d"%(k+i+1)
    o=mk('neutral',name,f,old,new,e[4] if len(e)>4 else None)
    if o: nm.append({"name":name,"what":desc,"file":f})
json.dump(nm,open('/verif/selftest/neutral/INDEX.json','w'),indent=1)
print(len(meta),"mutants",len(nm),"neutral")
