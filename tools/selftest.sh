#!/bin/bash
# usage: tools/selftest.sh [must-fail|neutral|seeded|all] [-j N]
# Must-fail corpus: every selftest/mutants/*.patch and seeded/*/patch.diff is applied to a scratch worktree of /repo HEAD
# (outside /repo and /verif), compiled, and the check of its property is run with --repo; exit 1 with a VIOLATION line is
# expected. Must-pass corpus: every selftest/neutral/*.patch (behaviour-preserving edits) is applied and ALL claimed
# checks must exit 0. Nothing here touches /repo's working tree. Results: selftest/last_run.json.
set -u
WHAT=${1:-all}; J=${3:-6}
export GOFLAGS=-mod=mod GOPROXY=off GOSUMDB=off GOTOOLCHAIN=local
cd /verif
[ bin/gocv -nt engine/main.go ] || ./check C05 --no-evidence >/dev/null 2>&1
ROOT=/root/scratch/selftest; mkdir -p $ROOT; RES=$ROOT/results; rm -rf $RES $ROOT/logs; mkdir -p $RES $ROOT/logs
HEAD=$(git -C /repo rev-parse HEAD)
one() { # kind name patch props...
  kind=$1; name=$2; patch=$3; shift 3
  W=$ROOT/w-$name
  git -C /repo worktree remove --force $W >/dev/null 2>&1; rm -rf $W
  git -C /repo worktree add -q --detach $W $HEAD >/dev/null 2>&1 || { echo "$kind $name worktree-failed" > $RES/$name; return; }
  if ! git -C $W apply $patch 2>/dev/null; then echo "$kind $name patch-does-not-apply" > $RES/$name; git -C /repo worktree remove --force $W; return; fi
  if ! ( cd $W/src && go build ./... ) >/dev/null 2>&1; then echo "$kind $name does-not-compile" > $RES/$name; git -C /repo worktree remove --force $W; return; fi
  line="$kind $name"
  for p in "$@"; do
    out=$(/verif/check $p --repo $W/src --no-evidence --workdir $ROOT/work-$name 2>&1); rc=$?
    v=$(echo "$out" | grep -c '^VIOLATION')
    echo "$out" | tail -40 > $ROOT/logs/$name.$p.log
    line="$line $p:exit=$rc:violations=$v"
  done
  echo "$line" > $RES/$name
  git -C /repo worktree remove --force $W >/dev/null 2>&1; rm -rf $W $ROOT/work-$name
}
export -f one; export ROOT RES HEAD
jobs_file=$ROOT/jobs; : > $jobs_file
ALL=$(python3 -c "import json;print(' '.join(c['property_id'] for c in json.load(open('MANIFEST.json'))['checks']))")
if [ $WHAT = must-fail ] || [ $WHAT = all ]; then
  python3 - >> $jobs_file <<'PY'
import json
for m in json.load(open('/verif/selftest/mutants/INDEX.json')):
    print("mutant %s /verif/selftest/mutants/%s.patch %s"%(m['name'],m['name'],m['property']))
PY
fi
if [ $WHAT = seeded ] || [ $WHAT = all ]; then
  for d in seeded/*/; do n=$(basename $d); p=$(python3 -c "import json;m=json.load(open('$d/meta.json'));print(' '.join(k for k,v in m.get('checks_run_against_it',{}).items() if v['exit']==1) or m['property'][:3])"); kind=seeded; python3 -c "import json,sys;sys.exit(0 if json.load(open('$d/meta.json')).get('detected',True) else 1)" || kind=seeded-documented-miss; echo "$kind seed-$n /verif/$d/patch.diff $p" >> $jobs_file; done
fi
if [ $WHAT = neutral ] || [ $WHAT = all ]; then
  for f in selftest/neutral/*.patch; do n=$(basename $f .patch); echo "neutral $n /verif/$f $ALL" >> $jobs_file; done
fi
[ -n "${ONLY:-}" ] && { grep -E "$ONLY" $jobs_file > $jobs_file.f; mv $jobs_file.f $jobs_file; }
cat $jobs_file | xargs -P $J -L 1 bash -c 'one "$@"' _
python3 - $RES <<'PY'
import sys,os,json
res=[];bad=0
for f in sorted(os.listdir(sys.argv[1])):
    t=open(os.path.join(sys.argv[1],f)).read().split()
    kind,name,rest=t[0],t[1],t[2:]
    if kind in('mutant','seeded'):
        ok=any(':exit=1:' in r and not r.endswith('violations=0') for r in rest)
    elif kind=='seeded-documented-miss':
        ok=True  # recorded in seeded/<id>/meta.json as not detected (with the reason); reported, not counted
    else:
        ok=all(':exit=0:' in r and r.endswith('violations=0') for r in rest) and len(rest)>0
    if not ok: bad+=1
    res.append({"kind":kind,"name":name,"result":rest,"as_expected":ok})
    print(("ok   " if ok else "BAD  ")+kind,name,' '.join(r for r in rest if kind!='neutral' or ':exit=0:violations=0' not in r))
json.dump({"results":res,"unexpected":bad},open('/verif/selftest/last_run.json','w'),indent=1)
print("selftest: %d entries, %d not as expected"%(len(res),bad))
sys.exit(1 if bad else 0)
PY
rc=$?
rm -rf /verif/selftest/last_bad_logs; [ $rc -ne 0 ] && { mkdir -p /verif/selftest/last_bad_logs; cp $ROOT/logs/* /verif/selftest/last_bad_logs/ 2>/dev/null; }
git -C /repo worktree prune; rm -rf $ROOT
exit $rc
