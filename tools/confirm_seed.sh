#!/bin/bash
# usage: tools/confirm_seed.sh <prop-id> [<seed-name>]
# Confirms a seeded change produced by a sub-agent in /tmp/seed-out/<id>: applies patch.diff to a scratch worktree
# of /repo HEAD, builds, runs the whole existing suite, runs the demonstration with and without the change,
# and stores patch.diff + demo + meta.json under /verif/seeded/<name>/.
set -u
ID=$1; NAME=${2:-$ID}
SRC=/tmp/seed-out/$ID
W=/root/scratch/confirm-$NAME
export GOFLAGS=-mod=mod GOPROXY=off GOSUMDB=off GOTOOLCHAIN=local
git -C /repo worktree remove --force $W 2>/dev/null
git -C /repo worktree add -q $W HEAD || exit 2
cd $W
OUT=/verif/seeded/$NAME; mkdir -p $OUT
cp $SRC/patch.diff $OUT/patch.diff
DEMOS=$(find $SRC -name "*_test.go" 2>/dev/null)
res() { echo "$1" >> $OUT/confirm.log; }
: > $OUT/confirm.log
git apply --check $SRC/patch.diff 2>>$OUT/confirm.log || { res "PATCH DOES NOT APPLY to /repo HEAD"; echo "apply-failed"; exit 3; }
# locate demo destination from demo_cmd / package clause
for d in $DEMOS; do
  pkg=$(grep -m1 '^package ' $d | awk '{print $2}')
  dir=$(grep -rl --include=*.go "^package $pkg\$" src | grep -v _test.go | head -1 | xargs dirname)
  n=$(basename $(dirname $d))_$(basename $d); cp $d $dir/zz_seed_$n ; cp $d $OUT/$n ; echo "$dir/zz_seed_$n" >> $OUT/demo_files.txt
done
demo_run() { ( cd src && go test -vet=off -count=1 -timeout 300s -run 'TestSeed' ./... 2>&1 | grep -v "no test files" | tail -15 ); }
# 1. demo without the change
A=$(demo_run); echo "$A" | grep -q "^FAIL\|--- FAIL" && WITHOUT=fail || WITHOUT=pass
res "demo without change: $WITHOUT"
# 2. with the change
git apply $SRC/patch.diff
( cd src && go build ./... ) >>$OUT/confirm.log 2>&1 && BUILD=ok || BUILD=fail
res "build with change: $BUILD"
B=$(demo_run); echo "$B" | grep -q "^FAIL\|--- FAIL" && WITH=fail || WITH=pass
res "demo with change: $WITH"
echo "$B" | tail -8 >> $OUT/confirm.log
# 3. existing suite with the change (demo moved away)
for f in $(cat $OUT/demo_files.txt 2>/dev/null); do rm -f $f; done
S=$( cd src && go test -vet=off -count=1 -timeout 25m ./... 2>&1 | grep -v "no test files" ); echo "$S" | grep -q "^FAIL\|--- FAIL" && SUITE=fail || SUITE=pass
res "existing suite with change: $SUITE"
echo "$S" | tail -20 >> $OUT/confirm.log
cd /; git -C /repo worktree remove --force $W
rm -f $OUT/demo_files.txt
echo "seed $NAME: build=$BUILD suite=$SUITE demo_without=$WITHOUT demo_with=$WITH"
python3 - "$OUT" "$ID" "$BUILD" "$SUITE" "$WITHOUT" "$WITH" <<'PY'
import json,sys,os
out,pid,build,suite,wo,wi=sys.argv[1:7]
notes=open('/tmp/seed-out/%s/notes.md'%pid).read() if os.path.exists('/tmp/seed-out/%s/notes.md'%pid) else ''
meta={"property":pid,"source":"independent sub-agent working in its own scratch worktree of /repo","confirmed":{"build_with_change":build,"existing_suite_with_change":suite,"demo_without_change":wo,"demo_with_change":wi},
 "kept": build=="ok" and suite=="pass" and wo=="pass" and wi=="fail","agent_notes":notes[:6000],
 "what_i_ran":"tools/confirm_seed.sh: git worktree of /repo HEAD; git apply patch.diff; go build ./...; go test -run Seed (with/without); go test ./... (whole suite, demo removed)"}
json.dump(meta,open(os.path.join(out,'meta.json'),'w'),indent=1)
PY
