#!/bin/bash
# usage: tools/mutsweep.sh <file relative to /repo/src> "<props to run, in order>" [function ...]
# First-order mutation sweep (operator swaps, negated conditions, deleted statements, break/continue, int literals,
# `return err` -> nil) over the named functions; each mutant that compiles is checked with the given properties until one
# reports a violation. Survivors are listed in selftest/mutsweep/<tag>.json for triage (equivalent mutant or contract hole).
set -u
F=$1; PROPS=$2; shift 2
export GOFLAGS=-mod=mod GOPROXY=off GOSUMDB=off GOTOOLCHAIN=local
TAG=$(echo "$F" | tr '/.' '__')
ROOT=/root/scratch/ms-$TAG; rm -rf $ROOT; mkdir -p $ROOT/m
[ -x /verif/bin/mutsweep ] || (cd /verif/tools/mutsweep && go build -o /verif/bin/mutsweep .)
/verif/bin/mutsweep /repo/src/$F $ROOT/m "$@" > $ROOT/list.jsonl
N=$(wc -l < $ROOT/list.jsonl); echo "$N mutants of $F"
J=${J:-6}
for i in $(seq 1 $J); do mkdir -p $ROOT/w$i; rsync -a --exclude '.git' /repo/src $ROOT/w$i/ ; done
PKG=$(dirname $F)
run() { # worker-index id
  w=$ROOT/w$1; id=$2
  cp $ROOT/m/$id.go $w/src/$F
  if ! (cd $w/src && go build ./$PKG/ ) >/dev/null 2>&1; then echo "$id nocompile" ; cp /repo/src/$F $w/src/$F; return; fi
  if ! (cd $w/src && go vet -vettool=/bin/true ./$PKG/ ) >/dev/null 2>&1; then :; fi
  res="survived"
  for p in $PROPS; do
    out=$(/verif/check $p --repo $w/src --no-evidence --workdir $ROOT/work$1 2>&1); rc=$?
    if [ $rc -eq 1 ] && echo "$out" | grep -q '^VIOLATION'; then res="killed:$p:$(echo "$out" | grep -m1 '^VIOLATION' | sed 's/.*replays\/[A-Z0-9]*\///; s/\.json.*//' | cut -c1-90)"; break; fi
    if [ $rc -ne 0 ] && [ $rc -ne 1 ]; then res="error:$p:rc=$rc"; break; fi
    if [ $rc -eq 1 ]; then res="error:$p:exit1-without-violation"; break; fi
  done
  echo "$id $res"
  cp /repo/src/$F $w/src/$F
}
export -f run; export ROOT F PKG PROPS
python3 -c "
import json
for i,l in enumerate(open('$ROOT/list.jsonl')): print(i%$J+1, json.loads(l)['id'])" > $ROOT/jobs
for i in $(seq 1 $J); do ( grep "^$i " $ROOT/jobs | while read w id; do run $w $id; done > $ROOT/res$i ) & done; wait
cat $ROOT/res* > $ROOT/results
mkdir -p /verif/selftest/mutsweep
python3 - $ROOT $TAG "$F" <<'PY'
import json,sys,collections
root,tag,f=sys.argv[1:4]
res={l.split()[0]:' '.join(l.split()[1:]) for l in open(root+'/results')}
out=[];c=collections.Counter()
for l in open(root+'/list.jsonl'):
    m=json.loads(l); m['result']=res.get(m['id'],'missing'); c[m['result'].split(':')[0]]+=1; out.append(m)
json.dump({"file":f,"summary":dict(c),"mutants":out},open('/verif/selftest/mutsweep/%s.json'%tag,'w'),indent=1)
print(dict(c))
for m in out:
    if m['result'].startswith(('survived','error')): print(m['id'],m['func'],m['line'],m['kind'],m['desc'],'=>',m['result'])
PY
echo "mutant sources kept in $ROOT/m (remove with rm -rf $ROOT)"
