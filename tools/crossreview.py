#!/usr/bin/env python3
# Reads selftest/cross_matrix.json (tools/crossmatrix.sh) and lists every (entry, check) pair where a check alarmed
# although the entry was not written for that property (nor recorded as related in seeded/<id>/meta.json): each such
# pair is either a legitimate consequence (shared code, the clause is tagged for both properties) or a false alarm.
# Also lists entries no check detected and non-0/1 exits (contract errors).
import json,os,re,sys,collections
m=json.load(open('/verif/selftest/cross_matrix.json'))
exp={}
for e in json.load(open('/verif/selftest/mutants/INDEX.json')): exp[e['name']]={e['property']}
for d in os.listdir('/verif/seeded'):
    f='/verif/seeded/%s/meta.json'%d
    if os.path.exists(f):
        mm=json.load(open(f)); exp['seed-'+d]={d[:3]}|set(mm.get('checks_run_against_it',{}).keys())
extra=collections.defaultdict(list); undetected=[]; odd=[]
for name,res in sorted(m.items()):
    al=[p for p,r in res.items() if r['exit']==1]
    if not al: undetected.append(name)
    for p,r in res.items():
        if r['exit'] not in (0,1): odd.append((name,p,r['exit']))
        if r['exit']==1 and p not in exp.get(name,set()):
            extra[(name,p)]=r['violated']
print("entries:",len(m),"undetected:",undetected)
print("non 0/1 exits:",odd)
print("alarms outside the expected set: %d pairs"%len(extra))
byobl=collections.defaultdict(list)
for (n,p),v in extra.items():
    for o in v: byobl[(p,o)].append(n)
for (p,o),ns in sorted(byobl.items()):
    print(" ",p,o[:150],"<-",' '.join(ns))
