#!/bin/bash
# usage: tools/stress.sh [N]  - runs every claimed check N times (default 4), 8 at a time, on the unchanged tree and reports
# every run that did not exit 0 or whose summary line differs from the first run of that check (nondeterminism guard).
N=${1:-4}; cd /verif; R=/root/scratch/stress; rm -rf $R; mkdir -p $R
IDS=$(python3 -c "import json;print(' '.join(c['property_id'] for c in json.load(open('MANIFEST.json'))['checks']))")
for p in $IDS; do for i in $(seq 1 $N); do echo "$p $i"; done; done | xargs -P 8 -L 1 bash -c './check $0 --no-evidence --workdir '$R'/w-$0-$1 > '$R'/$0.$1.log 2>&1; echo "rc=$?" >> '$R'/$0.$1.log'
bad=0
for p in $IDS; do
  ref=$(grep "^property" $R/$p.1.log | sed 's/; load.*//')
  for i in $(seq 1 $N); do
    cur=$(grep "^property" $R/$p.$i.log | sed 's/; load.*//')
    grep -q "rc=0" $R/$p.$i.log || { echo "NONZERO $p run $i: $(tail -3 $R/$p.$i.log | head -2)"; bad=1; }
    [ "$cur" = "$ref" ] || { echo "DIFFERS $p run $i: $cur  vs  $ref"; bad=1; }
  done
done
rm -rf $R; [ $bad -eq 0 ] && echo "stress: $N runs of each check agree and exit 0"; exit $bad
