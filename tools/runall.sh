#!/bin/bash
# runs every claimed check (quick) on the unchanged tree; prints one line per property; exit 1 if any alarms
cd /verif; rc=0
for p in $(python3 -c "import json;print(' '.join(c['property_id'] for c in json.load(open('MANIFEST.json'))['checks']))"); do
  out=$(./check $p ${1:-} 2>&1); r=$?
  line=$(echo "$out" | grep "^property" | tail -1 | cut -c1-150)
  [ $r -ne 0 ] && { rc=1; echo "ALARM($r) $p: $(echo "$out" | grep -v '^KNOWN' | tail -2 | head -1 | cut -c1-200)"; } || echo "ok $line"
done
exit $rc
