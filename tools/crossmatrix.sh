#!/bin/bash
# usage: tools/crossmatrix.sh [-j N]   (ONLY=<regex> filters jobs)
# Runs EVERY claimed check against EVERY must-fail entry (own mutants and seeded changes), not only the checks of the
# property the entry was written for, and records which checks alarm and with which obligations: selftest/cross_matrix.json.
# Purpose: an alarm of a check whose property the change does not break would be a false alarm; tools/crossreview.py lists
# the (entry, property) pairs outside the entry's expected set for review.
set -u
J=${2:-6}
export GOFLAGS=-mod=mod GOPROXY=off GOSUMDB=off GOTOOLCHAIN=local
cd /verif
[ bin/gocv -nt engine/main.go ] || ./check C05 --no-evidence >/dev/null 2>&1
ROOT=/root/scratch/cross; rm -rf $ROOT; mkdir -p $ROOT/results
HEAD=$(git -C /repo rev-parse HEAD)
ALL=$(python3 -c "import json;print(' '.join(c['property_id'] for c in json.load(open('MANIFEST.json'))['checks']))")
one() { name=$1; patch=$2; shift 2
  W=$ROOT/w-$name
  git -C /repo worktree add -q --detach $W $HEAD >/dev/null 2>&1 || return
  git -C $W apply $patch 2>/dev/null || { git -C /repo worktree remove --force $W; return; }
  : > $ROOT/results/$name
  for p in "$@"; do
    out=$(/verif/check $p --repo $W/src --no-evidence --workdir $ROOT/work-$name 2>&1); rc=$?
    echo "$p rc=$rc $(echo "$out" | grep '^VIOLATION' | sed 's|.*replays/[^/]*/||; s|\.json.*||' | tr '\n' ' ')" >> $ROOT/results/$name
  done
  git -C /repo worktree remove --force $W >/dev/null 2>&1; rm -rf $W $ROOT/work-$name
}
export -f one; export ROOT HEAD
python3 - > $ROOT/jobs <<PY
import json,glob,os
for m in json.load(open('/verif/selftest/mutants/INDEX.json')):
    print("%s /verif/selftest/mutants/%s.patch $ALL"%(m['name'],m['name']))
for d in sorted(glob.glob('/verif/seeded/*/')):
    print("seed-%s %spatch.diff $ALL"%(os.path.basename(d.rstrip('/')),d))
PY
[ -n "${ONLY:-}" ] && { grep -E "$ONLY" $ROOT/jobs > $ROOT/jobs.f; mv $ROOT/jobs.f $ROOT/jobs; }
cat $ROOT/jobs | xargs -P $J -L 1 bash -c 'one "$@"' _
python3 - $ROOT/results <<'PY'
import sys,os,json
out={}
for f in sorted(os.listdir(sys.argv[1])):
    e={}
    for l in open(os.path.join(sys.argv[1],f)):
        t=l.split()
        if len(t)<2: continue
        e[t[0]]={"exit":int(t[1][3:]),"violated":t[2:]}
    out[f]=e
json.dump(out,open('/verif/selftest/cross_matrix.json','w'),indent=1)
print("entries:",len(out))
PY
git -C /repo worktree prune; rm -rf $ROOT
