#!/bin/bash
# usage: tools/mut.sh <prop> <file-relative-to-src> <python-replace-old> <python-replace-new> [check args]
# applies a one-off textual mutation in the scratch worktree /root/scratch/mut, runs the check, restores.
set -u
P=$1; F=$2; OLD=$3; NEW=$4; shift 4
W=/root/scratch/mut
git -C $W checkout -q -- . 
git -C $W reset -q --hard $(git -C /repo rev-parse HEAD) >/dev/null
python3 - "$W/src/$F" "$OLD" "$NEW" <<'PY'
import sys
p,old,new=sys.argv[1:4]
s=open(p).read()
assert s.count(old)>=1, "pattern not found"
s=s.replace(old,new,1)
open(p,'w').write(s)
PY
[ $? -eq 0 ] || exit 9
(cd $W/src && GOFLAGS=-mod=mod GOPROXY=off GOSUMDB=off go build ./... ) || { echo "MUTANT DOES NOT COMPILE"; exit 8; }
/verif/check $P --repo $W/src --no-evidence "$@" | grep -v "^KNOWN" | tail -4
git -C $W checkout -q -- .
