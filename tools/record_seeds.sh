#!/bin/bash
# runs each seeded change against the checks of its property (and related ones) and records what caught it
cd /verif
declare -A REL=( [C01]="C01 C06" [C03]="C03 C01" [C04]="C04 C16" [C05]="C05" [C06]="C06" [C08]="C08" [C09]="C09" [C10]="C10" [C11]="C11" [C12]="C12 C11" [C13]="C13" [C14]="C14" [C15]="C15" [C16]="C16 C17" [C17]="C17" [C19]="C19" [C20]="C20" [C02]="C02 C01 C05" [C07]="C07" [C01b]="C01" [C03b]="C03 C14" [C05b]="C05 C02" [C09b]="C09" [C10b]="C10" [C14b]="C14 C10" [C15b]="C15" [C04b]="C04" [C06b]="C06 C01" [C08b]="C08" [C11b]="C11 C12" [C12b]="C12 C11" [C13b]="C13" [C16b]="C16" [C17b]="C17" [C19b]="C19" [C20b]="C20" [C01c]="C01 C07" [C03c]="C03 C07" [C05c]="C05 C02" [C07b]="C07" [C09c]="C09" [C10c]="C10" [C14c]="C14" [C15c]="C15 C04" [C16c]="C16" [C17c]="C17" [C19c]="C19" [C02b]="C02 C01 C06" [C01d]="C01 C02" [C03d]="C03" [C04c]="C04 C15" [C06c]="C06" [C07c]="C07" [C08c]="C08" [C09d]="C09 C04" [C11c]="C11" [C13c]="C13 C08" [C16d]="C16" [C02c]="C02 C07" [C05d]="C05" [C06d]="C06 C05 C01" [C07d]="C07 C06" [C10d]="C10" [C11d]="C11 C12" [C12c]="C12 C11" [C13d]="C13 C01" [C15d]="C15" [C17d]="C17" [C19d]="C19 C07" [C20c]="C20" [C01e]="C01" [C03e]="C03" [C04d]="C04 C09" [C08d]="C08 C14" [C09e]="C09 C07" [C10e]="C10" [C14d]="C14 C03" [C16e]="C16 C04" [C17e]="C17" [C20d]="C20" [C05e]="C05" [C06e]="C06 C07" [C07e]="C07 C02" [C11e]="C11 C12 C15" [C13e]="C13" [C15e]="C15" [C19e]="C19" )
for d in seeded/*/; do
  n=$(basename $d); ps=${REL[$n]:-$n}
  [ -z "$(git -C /repo status --porcelain -- src)" ] || { echo "REFUSING: /repo dirty"; exit 9; }
  git -C /repo apply /verif/$d/patch.diff || { echo "$n: patch does not apply"; continue; }
  res="{}"
  for p in $ps; do
    out=$(./check $p --no-evidence 2>&1); rc=$?
    obls=$(echo "$out" | grep '^VIOLATION' | sed 's/.*replays\/[A-Z0-9]*\///; s/\.json.*//' | tr '\n' ' ')
    res=$(python3 -c "import json,sys; r=json.loads(sys.argv[1]); r[sys.argv[2]]={'exit':int(sys.argv[3]),'violated':sys.argv[4].split()}; print(json.dumps(r))" "$res" "$p" "$rc" "$obls")
  done
  git -C /repo checkout -- .
  python3 - "$d/meta.json" "$res" <<'PY'
import json,sys
m=json.load(open(sys.argv[1])); m['checks_run_against_it']=json.loads(sys.argv[2])
m['detected']=any(v['exit']==1 for v in m['checks_run_against_it'].values())
json.dump(m,open(sys.argv[1],'w'),indent=1)
print(sys.argv[1], 'detected' if m['detected'] else 'MISSED', {k:v['violated'][:2] for k,v in m['checks_run_against_it'].items() if v['exit']==1})
PY
done
