#!/bin/bash
# usage: tools/try_seed.sh <seed-name> <prop> [<prop>...]  - applies seeded/<name>/patch.diff to /repo, runs the checks, undoes it
set -u
N=$1; shift
cd /repo && { [ -z "$(git status --porcelain -- src)" ] || { echo "REFUSING: /repo has uncommitted changes under src"; exit 9; }; } && git apply /verif/seeded/$N/patch.diff || { echo "cannot apply"; exit 2; }
for p in "$@"; do
  out=$(/verif/check $p --no-evidence 2>&1); rc=$?
  echo "seed $N check $p exit=$rc :: $(echo "$out" | grep -c '^VIOLATION') violation line(s)"
  echo "$out" | grep '^VIOLATION' | sed 's/.*replays.//' | head -4
done
git -C /repo checkout -- . 
