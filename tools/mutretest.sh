#!/bin/bash
# usage: tools/mutretest.sh <sweep root dir> <file relative to src> "<props>" <id>...   - re-runs given mutants of an earlier sweep
set -u
ROOT=$1; F=$2; PROPS=$3; shift 3
export GOFLAGS=-mod=mod GOPROXY=off GOSUMDB=off GOTOOLCHAIN=local
J=${J:-8}; PKG=$(dirname $F)
for i in $(seq 1 $J); do rm -rf $ROOT/r$i; mkdir -p $ROOT/r$i; rsync -a --exclude '.git' /repo/src $ROOT/r$i/ ; done
run() { w=$ROOT/r$1; id=$2
  cp $ROOT/m/$id.go $w/src/$F
  (cd $w/src && go build ./$PKG/ ) >/dev/null 2>&1 || { echo "$id nocompile"; cp /repo/src/$F $w/src/$F; return; }
  res=survived
  for p in $PROPS; do
    out=$(/verif/check $p --repo $w/src --no-evidence --workdir $ROOT/rw$1 2>&1); rc=$?
    if [ $rc -eq 1 ] && echo "$out" | grep -q '^VIOLATION'; then res="killed:$p:$(echo "$out" | grep -m1 '^VIOLATION' | sed 's/.*replays\/[A-Z0-9]*\///; s/\.json.*//' | cut -c1-90)"; break; fi
    if [ $rc -ne 0 ]; then res="error:$p:rc=$rc"; break; fi
  done
  echo "$id $res"; cp /repo/src/$F $w/src/$F; }
export -f run; export ROOT F PKG PROPS
n=0; for id in "$@"; do n=$((n+1)); echo "$((n%J+1)) $id"; done > $ROOT/rjobs
for i in $(seq 1 $J); do ( grep "^$i " $ROOT/rjobs | while read w id; do run $w $id; done > $ROOT/rres$i ) & done; wait
cat $ROOT/rres*
