#!/usr/bin/env python3
"""Regenerates the machine-written tables of DESIGN.md section 12 (between the BEGIN/END generated markers) from
evidence/*.json, known_findings.json, seeded/*/meta.json, selftest/{mutants,neutral}/INDEX.json and selftest/last_run.json."""
import json, glob, os, re, subprocess
R='/verif'
def ev(p):
    f=f'{R}/evidence/{p}.json'
    return json.load(open(f)) if os.path.exists(f) else None
man=json.load(open(f'{R}/MANIFEST.json'))
props=[c['property_id'] for c in man['checks']]
out=[]
out.append('| property | obligations (all discharged) | instances | functions under contract | back ends | solver s | wall s | bounded stand-ins | open known findings |')
out.append('|---|---|---|---|---|---|---|---|---|')
kf=json.load(open(f'{R}/known_findings.json'))
for p in props:
    e=ev(p)
    if not e: continue
    c=e['coverage']
    be=', '.join(f'{k}:{v}' for k,v in sorted(c['by_backend'].items()))
    b='; '.join(f"{x['test']} ({x.get('cases',0)} cases)" for x in (c.get('bounded') or [])) or '-'
    k=len(c.get('obligations_failing_known') or [])
    out.append(f"| {p} | {c['obligations']} | {c['obligation_instances']} | {len(c['functions_under_contract'])} | {be} | {c['solver_seconds']} | {e['wall_s']} | {b} | {k} |")
status='\n'.join(out)

# known findings
o=[]
for k in kf:
    st=k.get('status','open')
    if st.startswith('fixed'): continue
    o.append(f"* **{k['property']}** `{k['obligation']}` — {k['what']}")
openk='\n'.join(o)
fx={}
for k in kf:
    st=k.get('status','')
    if st.startswith('fixed'):
        fx.setdefault(st.split()[-1],[]).append(k)
log=subprocess.run(['git','-C','/repo','log','--format=%h %s'],capture_output=True,text=True).stdout.splitlines()
fl=[]
for l in log:
    h,s=l.split(' ',1)
    if s.startswith('fix:'):
        ks=[k for hh,v in fx.items() if h.startswith(hh) or hh.startswith(h) for k in v]
        obl=', '.join(sorted({k['property'] for k in ks})) or '-'
        fl.append(f"| `{h}` | {s[5:]} | {obl} | {len(ks)} |")
fixes='| commit | defect repaired | property | obligations that failed before |\n|---|---|---|---|\n'+'\n'.join(fl)

# seeded changes
s=['| seeded change | property | what it does | caught by (check: first violated obligation) | first missed? / not detected |','|---|---|---|---|---|']
for d in sorted(glob.glob(f'{R}/seeded/*/meta.json')):
    m=json.load(open(d)); n=os.path.basename(os.path.dirname(d))
    notes=m.get('agent_notes','')
    pd=open(os.path.join(os.path.dirname(d),'patch.diff')).read()
    f=re.search(r'(?m)^\+\+\+ b/(\S+)',pd); h=re.search(r'(?m)^@@[^@]*@@ ?(.*)$',pd)
    first=re.sub(r'^[#\s]*','',notes.strip().split('\n')[0])[:140]
    what=m.get('what') or f"{f.group(1) if f else ''} ({(h.group(1) if h else '').strip()[:70]}): {first}"
    caught='; '.join(f"{k}: `{v['violated'][0][:90]}`" for k,v in m.get('checks_run_against_it',{}).items() if v['exit']==1 and v['violated'])
    s.append(f"| {n} | {m['property'][:3]} | {what.strip().replace('|','/')} | {caught} | {'yes - '+m.get('strengthening','')[:200] if m.get('initially_missed') else 'no'} |")
seeded='\n'.join(s)

# own corpus
lr={}
if os.path.exists(f'{R}/selftest/last_run.json'):
    for r in json.load(open(f'{R}/selftest/last_run.json'))['results']: lr[r['name']]=r
t=['| mutant | what it does | result of the last selftest run |','|---|---|---|']
for m in json.load(open(f'{R}/selftest/mutants/INDEX.json')):
    r=lr.get(m['name'])
    t.append(f"| {m['name']} | {m['what']} ({m['file']}) | {' '.join(r['result']) if r else 'not run'} |")
mut='\n'.join(t)
t=['| neutral edit | what it does | result (all 19 checks must exit 0) |','|---|---|---|']
for m in json.load(open(f'{R}/selftest/neutral/INDEX.json'))+(json.load(open(f'{R}/selftest/neutral/AGENTS.json')) if os.path.exists(f'{R}/selftest/neutral/AGENTS.json') else []):
    r=lr.get(m['name'])
    ok = r and r['as_expected']
    t.append(f"| {m['name']} | {m['what']} ({m['file']}) | {'all checks exit 0' if ok else ('not run' if not r else 'ALARM: '+' '.join(x for x in r['result'] if ':exit=0:' not in x))} |")
neu='\n'.join(t)
d=open(f'{R}/DESIGN.md').read()
for tag,txt in [('status',status),('openfindings',openk),('fixes',fixes),('seeded',seeded),('mutants',mut),('neutral',neu)]:
    b,e=f'<!-- BEGIN generated:{tag} -->',f'<!-- END generated:{tag} -->'
    if b in d:
        i=d.index(b)+len(b); j=d.index(e)
        d=d[:i]+'\n'+txt+'\n'+d[j:]
    else:
        print('marker missing:',tag)
open(f'{R}/DESIGN.md','w').write(d)
print('DESIGN.md section 12 tables regenerated')
